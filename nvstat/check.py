#!/usr/bin/env python3
"""Driver: decide the named structural clauses of one property on /repo's current tree.

exit 0  every obligation discharged (or only listed known findings failed)
exit 1  VIOLATION property=<id> replay=<path>
exit 2  ANALYSIS-ERROR: the analysis could not be carried out (never a silent pass)
"""
import argparse
import importlib
import json
import os
import sys
import traceback

HERE = os.path.dirname(os.path.abspath(__file__))
sys.path.insert(0, os.path.dirname(HERE))

from nvstat.core import AnalysisError, Ctx, finish, VERIF   # noqa: E402
from nvstat.loader import load_program                       # noqa: E402

PROPS = ['C01', 'C02', 'C03', 'C05', 'C06', 'C07', 'C08', 'C09', 'C10', 'C11', 'C12', 'C13',
         'C14', 'C15', 'C16']


def run_property(prop, tier, repo, seed):
    prog = load_program(repo)
    ctx = Ctx(prop, tier, prog, seed)
    mod = importlib.import_module('nvstat.props.' + prop)
    try:
        mod.run(ctx)
    except AnalysisError as exc:
        # a rule could not be carried out; obligations already evaluated stay valid -- but a
        # failure that is only a listed known finding is no reason to call the run decided
        from nvstat.core import load_known
        known = {(k.get('rule'), k.get('construct')) for k in load_known()
                 if k.get('property') == prop and k.get('status') == 'known'}
        if not [o for o in ctx.failures() if (o.rule, o.construct) not in known]:
            raise
        ctx.note('analysis incomplete: %s' % exc)
        print('NOTE property=%s analysis incomplete (%s); reporting the violations found so far'
              % (prop, exc))
        return finish(ctx, mod.LEVEL_TEXT)
    if not ctx.obligations:
        raise AnalysisError('no obligation was generated for %s' % prop)
    if ctx.floor_failures:
        from nvstat.core import load_known
        known = {(k.get('rule'), k.get('construct')) for k in load_known()
                 if k.get('property') == prop and k.get('status') == 'known'}
        if not [o for o in ctx.failures() if (o.rule, o.construct) not in known]:
            raise AnalysisError('; '.join(ctx.floor_failures))
    if tier == 'thorough':
        try:
            from nvstat import thorough
        except ImportError:
            thorough = None
        if thorough is not None:
            thorough.extend(ctx, mod)
    return finish(ctx, mod.LEVEL_TEXT)


def replay(path):
    with open(path if os.path.isabs(path) else os.path.join(VERIF, path)) as fh:
        rep = json.load(fh)
    print(json.dumps(rep, indent=1))
    return rep['property'], rep.get('repo'), (rep.get('rule'), rep.get('construct'))


def main(argv=None):
    ap = argparse.ArgumentParser()
    ap.add_argument('--property', '-p')
    ap.add_argument('--tier', default=os.environ.get('VERIF_TIER', 'quick'),
                    choices=['quick', 'thorough'])
    ap.add_argument('--repo', default=os.environ.get('NVSTAT_REPO', '/repo'))
    ap.add_argument('--replay')
    args = ap.parse_args(argv)
    try:
        seed = int(os.environ.get('VERIF_SEED', '0'))
    except ValueError:
        seed = 0
    prop = args.property
    if args.replay:
        prop, rrepo, what = replay(args.replay)
        if rrepo and os.path.isdir(os.path.join(rrepo, 'nautilus')) and \
                args.repo == os.environ.get('NVSTAT_REPO', '/repo'):
            args.repo = rrepo       # the tree the finding was made on, if it still exists
        print('--- re-running property %s on %s (finding: rule %s, construct %s)'
              % (prop, args.repo, what[0], what[1]))
    if prop not in PROPS:
        print('ANALYSIS-ERROR property=%s unknown or not claimed' % prop)
        return 2
    try:
        return run_property(prop, args.tier, args.repo, seed)
    except AnalysisError as exc:
        print('ANALYSIS-ERROR property=%s %s' % (prop, exc))
        return 2
    except Exception as exc:     # analyser bug: never reported as a violation
        traceback.print_exc()
        print('ANALYSIS-ERROR property=%s analyser raised %s: %s' % (prop, type(exc).__name__,
                                                                   exc))
        return 2


if __name__ == '__main__':
    sys.exit(main())

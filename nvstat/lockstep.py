"""E1 LOCKSTEP: parallel records are transformed together (DESIGN.md section 3, E1).

Every statement that structurally changes a member of an aligned group is abstracted
to an update event (member, level, index, op, selector).  Events are compared along
every bounded path of the function: all members of a group must undergo the same
sequence of structural updates with the same selectors (compared by def-use identity).
"""
import ast

from .core import AnalysisError
from .cfg import cfg_of, enumerate_paths, PathLimit
from .exprs import dotted, unparse, walk_no_nested, root_attr, ekey, strip_not

STRUCTURAL = {'DELETE', 'PUSH', 'PUSHLIST', 'INSERT', 'INIT', 'REBUILD', 'REORDER', 'XFORM',
              'REPLACE',
              'SELECT', 'EXTEND', 'SLICE', 'REPEAT', 'FLATTEN', 'BUILD', 'SET'}
# order-preserving elementwise operations (MAP): not structural
MAP_CALLS = {'np.array', 'np.asarray', 'np.copy', 'np.exp', 'np.log', 'np.abs', 'np.maximum',
             'np.minimum', 'np.nan_to_num', 'np.atleast_1d', 'np.atleast_2d', 'np.ascontiguousarray',
             'np.floor', 'np.ceil', 'np.where', 'np.isfinite', 'np.isnan', 'list', 'tuple',
             'transform', 'np.squeeze'}
REORDER_CALLS = {'np.sort', 'np.flip', 'np.roll', 'np.unique', 'np.argsort', 'sorted',
                 'reversed', 'np.random.permutation', 'np.take', 'np.resize', 'np.insert',
                 'np.partition', 'np.fliplr', 'np.flipud', 'np.rot90', 'np.tile'}
CONCAT_CALLS = {'np.concatenate', 'np.vstack', 'np.hstack', 'np.append', 'np.row_stack',
                'np.r_'}


class Event:
    __slots__ = ('member', 'level', 'idx', 'op', 'sel', 'payload', 'ast', 'nid', 'extra')

    def __init__(self, member, level, idx, op, sel, payload, node, nid, extra=None):
        self.member = member
        self.level = level      # 'list' | 'elem'
        self.idx = idx          # index key for elem level
        self.op = op
        self.sel = sel
        self.payload = payload
        self.ast = node
        self.nid = nid
        self.extra = extra or {}

    def sig(self):
        return (self.level, self.idx, self.op, self.sel)

    def __repr__(self):
        return '<%s %s[%s] %s(%s) L%d>' % (self.member, self.level, self.idx, self.op, self.sel,
                                           getattr(self.ast, 'lineno', 0))


class Tracker:
    """Extracts update events for a set of members.  A member is either an attribute
    of the receiver ('self', name) or a local variable (None, name)."""

    def __init__(self, func, members, recv=None, locals_=(), arrays=()):
        self.arrays = set(arrays)      # members that are flat arrays: m[i] = v is a MARK
        self.func = func
        self.cfg = cfg_of(func)
        self.recv = recv if recv is not None else func.self_name
        self.members = set(members)
        self.locals = set(locals_)

    # -- which member does an expression denote -------------------------------
    def member_of(self, e):
        """(member, [index exprs]) when `e` is self.m, self.m[i], self.m[i][j] or a
        tracked local (optionally subscripted)."""
        idx = []
        while isinstance(e, ast.Subscript):
            idx.append(e.slice)
            e = e.value
        idx.reverse()
        if isinstance(e, ast.Attribute) and isinstance(e.value, ast.Name) and \
                e.value.id == self.recv and e.attr in self.members:
            return e.attr, idx
        if isinstance(e, ast.Name) and e.id in self.locals:
            return e.id, idx
        return None

    def same_place(self, a, b):
        return unparse(a) == unparse(b)

    def key(self, nid, e):
        if e is None:
            return None
        return ekey(self.cfg, nid, e)

    def selkey(self, nid, e):
        """Selector key with explicit complement: ('~', key) for `~m` / `not m`."""
        inner, neg = strip_not(e)
        k = self.key(nid, inner)
        return ('~' + k) if neg else k

    # -- classification of an assigned value -----------------------------------
    def classify(self, nid, target, value, level):
        """Events for `target = value` where target denotes a member (level 'list') or
        an element of a member (level 'elem').  -> list of (op, sel, payload, extra)"""
        T = target
        cn = dotted(value.func) if isinstance(value, ast.Call) else None
        # fresh values
        if isinstance(value, (ast.List, ast.Tuple)) and not value.elts:
            return [('INIT', None, None, {})]
        if isinstance(value, ast.Constant) and value.value is None:
            return [('INIT', None, None, {})]
        if cn in ('np.zeros', 'np.empty', 'np.ones', 'list', 'dict') and \
                not self._mentions(value, T):
            return [('INIT', None, value, {})]
        if isinstance(value, (ast.List, ast.Tuple)) and not self._mentions(value, T):
            return [('INIT', None, value, {'elts': list(value.elts)})]
        # T[...]
        if isinstance(value, ast.Subscript) and self.same_place(value.value, T):
            sl = value.slice
            if isinstance(sl, ast.Slice):
                return [('SLICE', self.key(nid, sl.lower) if sl.lower is not None else None,
                         None, {'slice': sl})]
            return [('SELECT', self.selkey(nid, sl), None, {'selector': sl})]
        cf = self._comp_filter(nid, T, value)
        if cf is not None:
            return [('SELECT', cf, None, {'selector': value})]
        if cn in CONCAT_CALLS:
            parts = self._concat_parts(value)
            if parts is not None:
                # np.concatenate(T): flatten a list of arrays
                if len(parts) == 1 and self.same_place(parts[0], T) and cn != 'np.append':
                    return [('FLATTEN', None, None, {})]
                pos = [i for i, p in enumerate(parts) if self.same_place(p, T)]
                if pos:
                    evs = []
                    rest = [p for i, p in enumerate(parts) if i != pos[0]]
                    old_first = pos[0] == 0
                    if level == 'list' and len(rest) == 1 and isinstance(rest[0],
                                                                          (ast.List, ast.Tuple)):
                        for x in rest[0].elts:
                            evs.append(('PUSH' if old_first else 'PUSHFRONT', None, x, {}))
                        return evs
                    for x in rest:
                        evs.append(('EXTEND' if level == 'elem' or self._is_rows(T) else 'PUSH',
                                    None, x, {'old_first': old_first}))
                    return evs
                # np.concatenate((np.delete(T, i), [a, b]))
                if parts and isinstance(parts[0], ast.Call) and \
                        dotted(parts[0].func) == 'np.delete' and parts[0].args and \
                        self.same_place(parts[0].args[0], T):
                    evs = [('DELETE', self.key(nid, parts[0].args[1]), None, {})]
                    for p in parts[1:]:
                        if isinstance(p, (ast.List, ast.Tuple)):
                            for x in p.elts:
                                evs.append(('PUSH', None, x, {}))
                        else:
                            evs.append(('PUSHLIST', None, p, {}))
                    return evs
        if cn == 'np.delete' and value.args and self.same_place(value.args[0], T):
            return [('DELETE', self.key(nid, value.args[1]), None, {})]
        if cn == 'np.insert' and len(value.args) >= 3 and isinstance(value.args[0], ast.Call) \
                and dotted(value.args[0].func) == 'np.delete' and value.args[0].args and \
                self.same_place(value.args[0].args[0], T) and \
                self.key(nid, value.args[0].args[1]) == self.key(nid, value.args[1]):
            # element i replaced, in place, by the elements of L
            return [('REPLACE', self.key(nid, value.args[1]), value.args[2], {})]
        if cn == 'np.take' and len(value.args) >= 2 and self.same_place(value.args[0], T):
            axis = None
            for k in value.keywords:
                if k.arg == 'axis':
                    axis = k.value
            if axis is None and len(value.args) > 2:
                axis = value.args[2]
            return [('SELECT', self.selkey(nid, value.args[1]), None,
                     {'selector': value.args[1], 'take': True,
                      'axis': unparse(axis) if axis is not None else None})]
        if cn == 'np.repeat' and value.args and self.same_place(value.args[0], T):
            axis = None
            for k in value.keywords:
                if k.arg == 'axis':
                    axis = k.value
            if axis is None and len(value.args) > 2:
                axis = value.args[2]
            return [('REPEAT', self.key(nid, value.args[1]), None,
                     {'axis': unparse(axis) if axis is not None else None})]
        if isinstance(value, ast.BinOp) and isinstance(value.op, ast.Add) and \
                self.same_place(value.left, T):
            r = value.right
            if isinstance(r, (ast.List, ast.Tuple)):
                return [('PUSH', None, x, {}) for x in r.elts]
            return [('PUSHLIST', None, r, {})]
        if isinstance(value, ast.BinOp) and isinstance(value.op, ast.Add) and \
                self.same_place(value.right, T):
            return [('PUSHFRONT', None, value.left, {})]
        if self._mentions(value, T):
            if cn in REORDER_CALLS:
                return [('REORDER', cn, None, {})]
            if cn in MAP_CALLS or cn in getattr(self, 'map_calls', ()) or \
                    self._is_elementwise(value, T):
                return [('MAP', None, None, {})]
            return [('XFORM', cn or type(value).__name__, None, {})]
        return [('SET', None, value, {})]

    def _is_rows(self, T):
        return False

    def _comp_filter(self, nid, T, value):
        """[x for x, m in zip(T, M) if <cond on m>]  /  [x for x in T if ...] wrapped or not
        in list()/np.array(): a row selection of T.  Returns the selector key (the condition
        with the mask variable replaced by M), or None."""
        v = value
        while isinstance(v, ast.Call) and dotted(v.func) in ('list', 'np.array', 'np.asarray',
                                                             'tuple') and v.args:
            v = v.args[0]
        if not isinstance(v, (ast.ListComp, ast.GeneratorExp)) or len(v.generators) != 1:
            return None
        g = v.generators[0]
        if len(g.ifs) != 1 or not isinstance(v.elt, ast.Name):
            return None
        it, tgt = g.iter, g.target
        if isinstance(it, ast.Call) and dotted(it.func) == 'zip' and len(it.args) == 2 and \
                isinstance(tgt, ast.Tuple) and len(tgt.elts) == 2 and \
                all(isinstance(e, ast.Name) for e in tgt.elts):
            if not self.same_place(it.args[0], T) or tgt.elts[0].id != v.elt.id:
                return None
            mvar, M = tgt.elts[1].id, it.args[1]
            import copy

            class _Sub(ast.NodeTransformer):
                def visit_Name(self, n):
                    if n.id == mvar and isinstance(n.ctx, ast.Load):
                        return copy.deepcopy(M)
                    return n
            cond = _Sub().visit(copy.deepcopy(g.ifs[0]))
            ast.fix_missing_locations(cond)
            return self.selkey(nid, cond)
        return None

    def _mentions(self, value, T):
        t = unparse(T)
        for sub in ast.walk(value):
            if isinstance(sub, (ast.Attribute, ast.Subscript, ast.Name)) and unparse(sub) == t:
                return True
        return False

    def _is_elementwise(self, value, T):
        """Arithmetic on the old value (T op x), astype, comparisons."""
        if isinstance(value, ast.BinOp) and (self.same_place(value.left, T) or
                                             self.same_place(value.right, T)):
            return True
        if isinstance(value, ast.Call) and isinstance(value.func, ast.Attribute) and \
                value.func.attr in ('astype', 'copy', 'view') and \
                self.same_place(value.func.value, T):
            return True
        return False

    @staticmethod
    def _concat_parts(call):
        cn = dotted(call.func)
        if cn == 'np.append':
            if len(call.args) >= 2:
                return [call.args[0], call.args[1]]
            return None
        def unwrap(x):
            # np.array([a, b], dtype=...) / np.asarray([a, b]) is the list it wraps
            if isinstance(x, ast.Call) and dotted(x.func) in ('np.array', 'np.asarray',
                                                              'np.atleast_1d') and x.args and \
                    isinstance(x.args[0], (ast.List, ast.Tuple)):
                return x.args[0]
            return x
        if call.args and isinstance(call.args[0], (ast.Tuple, ast.List)):
            return [unwrap(x) for x in call.args[0].elts]
        if call.args:
            return [unwrap(call.args[0])]
        return None

    # -- statement -> events ---------------------------------------------------
    def events_of(self, node):
        """Events of one CFG node."""
        if node.kind != 'stmt':
            return []
        st = node.ast
        nid = node.id
        out = []

        def emit(member, idxs, ops, stn):
            level = 'list' if not idxs else 'elem'
            ik = self.key(nid, idxs[0]) if idxs else None
            for op, sel, payload, extra in ops:
                out.append(Event(member, level, ik, op, sel, payload, stn, nid, extra))

        if isinstance(st, ast.Assign):
            for t in st.targets:
                tts = list(t.elts) if isinstance(t, (ast.Tuple, ast.List)) else [t]
                # a, b = x, y  is two assignments
                pairwise = isinstance(t, (ast.Tuple, ast.List)) and \
                    isinstance(st.value, (ast.Tuple, ast.List)) and \
                    len(st.value.elts) == len(tts)
                for k_, tt in enumerate(tts):
                    mo = self.member_of(tt)
                    if not mo:
                        continue
                    if pairwise:
                        m, idxs = mo
                        if len(idxs) >= 2 or (len(idxs) == 1 and self._elementwise_index(m)):
                            out.append(Event(m, 'elem', self.key(nid, idxs[0]), 'MARK', None,
                                             st.value.elts[k_], st, nid))
                        else:
                            emit(m, idxs, self.classify(nid, tt, st.value.elts[k_],
                                                        'list' if not idxs else 'elem'), st)
                        continue
                    m, idxs = mo
                    if len(idxs) == 1 and isinstance(idxs[0], ast.Slice) and \
                            idxs[0].lower is not None and idxs[0].upper is not None and \
                            idxs[0].step is None and self._is_plus_one(idxs[0]):
                        out.append(Event(m, 'list', None, 'REPLACE', self.key(nid, idxs[0].lower),
                                         st.value, st, nid))
                        continue
                    if len(idxs) >= 2 or (len(idxs) == 1 and self._elementwise_index(m)):
                        out.append(Event(m, 'elem', self.key(nid, idxs[0]), 'MARK', None,
                                         st.value, st, nid))
                        continue
                    if len(tts) > 1:
                        out.append(Event(m, 'list' if not idxs else 'elem',
                                         self.key(nid, idxs[0]) if idxs else None, 'SET', None,
                                         st.value, st, nid, {'tuple_target': True}))
                        continue
                    emit(m, idxs, self.classify(nid, tt, st.value, 'list' if not idxs
                                                else 'elem'), st)
        elif isinstance(st, ast.AugAssign):
            mo = self.member_of(st.target)
            if mo:
                m, idxs = mo
                if isinstance(st.op, ast.Add) and not idxs and isinstance(
                        st.value, (ast.List, ast.Tuple)):
                    for x in st.value.elts:
                        out.append(Event(m, 'list', None, 'PUSH', None, x, st, nid))
                else:
                    out.append(Event(m, 'elem' if idxs else 'list',
                                     self.key(nid, idxs[0]) if idxs else None, 'MARK', None,
                                     st.value, st, nid))
        elif isinstance(st, ast.Delete):
            for t in st.targets:
                if isinstance(t, ast.Subscript):
                    mo = self.member_of(t.value)
                    if mo:
                        m, idxs = mo
                        out.append(Event(m, 'list' if not idxs else 'elem',
                                         self.key(nid, idxs[0]) if idxs else None, 'DELETE',
                                         self.key(nid, t.slice), None, st, nid))
        elif isinstance(st, ast.Expr) and isinstance(st.value, ast.Call):
            c = st.value
            if isinstance(c.func, ast.Attribute):
                mo = self.member_of(c.func.value)
                meth = c.func.attr
                if mo:
                    m, idxs = mo
                    lvl = 'list' if not idxs else 'elem'
                    ik = self.key(nid, idxs[0]) if idxs else None
                    if meth == 'pop':
                        sel = self.key(nid, c.args[0]) if c.args else 'last'
                        out.append(Event(m, lvl, ik, 'DELETE', sel, None, st, nid))
                    elif meth == 'append':
                        out.append(Event(m, lvl, ik, 'PUSH', None, c.args[0] if c.args else None,
                                         st, nid))
                    elif meth == 'extend' and c.args and \
                            isinstance(c.args[0], (ast.List, ast.Tuple)):
                        for x in c.args[0].elts:      # extend([a, b]) == append(a); append(b)
                            out.append(Event(m, lvl, ik, 'PUSH', None, x, st, nid))
                    elif meth == 'extend':
                        out.append(Event(m, lvl, ik, 'PUSHLIST', None, c.args[0], st, nid))
                    elif meth == 'insert':
                        out.append(Event(m, lvl, ik, 'INSERT', self.key(nid, c.args[0]),
                                         c.args[1] if len(c.args) > 1 else None, st, nid))
                    elif meth == 'clear':
                        out.append(Event(m, lvl, ik, 'INIT', None, None, st, nid))
                    elif meth in ('sort', 'reverse', 'resize', 'partition'):
                        out.append(Event(m, lvl, ik, 'REORDER', meth, None, st, nid))
                    elif meth in ('remove',):
                        out.append(Event(m, lvl, ik, 'DELETE', 'value', None, st, nid))
                # rng.shuffle(member)
                if meth == 'shuffle' and c.args:
                    mo2 = self.member_of(c.args[0])
                    if mo2:
                        m, idxs = mo2
                        out.append(Event(m, 'list' if not idxs else 'elem',
                                         self.key(nid, idxs[0]) if idxs else None, 'REORDER',
                                         'shuffle', None, st, nid))
        return out

    @staticmethod
    def _is_plus_one(sl):
        """slice i:i+1"""
        u = sl.upper
        return isinstance(u, ast.BinOp) and isinstance(u.op, ast.Add) and (
            (unparse(u.left) == unparse(sl.lower) and isinstance(u.right, ast.Constant)
             and u.right.value == 1) or
            (unparse(u.right) == unparse(sl.lower) and isinstance(u.left, ast.Constant)
             and u.left.value == 1))

    def _elementwise_index(self, member):
        return member in self.arrays

    def all_events(self):
        ev = {}
        for n in self.cfg.nodes:
            e = self.events_of(n)
            if e:
                ev[n.id] = e
        return ev


# ---------------------------------------------------------------------------
# presence decisions for optional members
# ---------------------------------------------------------------------------

def presence_decision(expr, label, subjects):
    """'present' / 'absent' / None for a branch of a test about an optional member.
    subjects: texts such as 'self.blobs', 'blobs', 'return_blobs'."""
    e = expr
    neg = False
    while isinstance(e, ast.UnaryOp) and isinstance(e.op, ast.Not):
        neg = not neg
        e = e.operand
    truth = (label is True) != neg      # truth value of e on this branch
    if isinstance(e, ast.Compare) and len(e.ops) == 1 and \
            isinstance(e.comparators[0], ast.Constant) and e.comparators[0].value is None:
        s = unparse(e.left)
        if s in subjects:
            if isinstance(e.ops[0], ast.IsNot):
                return 'present' if truth else 'absent'
            if isinstance(e.ops[0], ast.Is):
                return 'absent' if truth else 'present'
    if isinstance(e, (ast.Name, ast.Attribute)) and unparse(e) in subjects:
        return 'present' if truth else 'absent'
    if isinstance(e, ast.BoolOp):
        for v in e.values:
            d = presence_decision(v, True, subjects)
            if d is not None:
                if isinstance(e.op, ast.And):
                    # conjunction true => each conjunct true; false => unknown -> absent allowed
                    return d if truth else 'absent'
                return 'absent' if not truth and d == 'present' else None
    return None


# ---------------------------------------------------------------------------
# L1: group-complete along every path
# ---------------------------------------------------------------------------

class Group:
    def __init__(self, name, mandatory, optional=None, ignore_ops=('MARK', 'MAP')):
        self.name = name
        self.mandatory = list(mandatory)
        self.optional = dict(optional or {})      # member -> set of presence subjects
        self.ignore_ops = set(ignore_ops)

    @property
    def members(self):
        return self.mandatory + list(self.optional)


def _sig_text(sig):
    level, idx, op, sel = sig
    return '%s%s:%s%s' % (level, '' if idx is None else '[..]', op,
                          '' if sel is None else '(sel)')


def check_group_paths(ctx, rid, func, group, tracker=None, max_loop=1, levels=('list', 'elem'),
                      start=None, note=None, wildcard_idx=()):
    """L1 along every bounded path of `func`.  Returns number of paths compared."""
    tr = tracker or Tracker(func, group.members)
    cfg = tr.cfg
    events = tr.all_events()
    gm = set(group.members)
    rel = {nid: [e for e in evs if e.op not in group.ignore_ops and e.level in levels
                 and e.member in gm]
           for nid, evs in events.items()}
    rel = {k: v for k, v in rel.items() if v}
    touched = {e.member for evs in rel.values() for e in evs}
    if not rel:
        return 0, set()
    try:
        paths = enumerate_paths(cfg, start=start, max_loop=max_loop)
    except PathLimit:
        raise AnalysisError('%s: more than 1e5 paths (loop bound %d)' % (func.qualname, max_loop))
    seen = set()
    failures = {}
    n_cmp = 0
    ref = group.mandatory[0]
    for path, preds, end in paths:
        if end == cfg.raise_exit.id:
            continue        # a rejected call: T1 governs what may have happened before
        seq = {m: [] for m in group.members}
        pos = {m: [] for m in group.members}
        for i, nid in enumerate(path):
            for e in rel.get(nid, ()):
                seq[e.member].append(e)
                pos[e.member].append(i)
        key = tuple((m, tuple(e.sig() for e in seq[m])) for m in group.members)
        # absence decisions along the path for optional members
        dec = {}
        for m, subjects in group.optional.items():
            ds = []
            for i, nid in enumerate(path[:-1]):
                n = cfg.nodes[nid]
                if n.kind == 'test':
                    lab = [l for s, l in n.succ if s == path[i + 1]]
                    for l in lab:
                        d = presence_decision(n.expr, l, subjects)
                        if d:
                            ds.append((i, d))
            dec[m] = ds
        key = key + tuple((m, tuple(d for _, d in dec[m])) for m in group.optional)
        if key in seen:
            continue
        seen.add(key)
        if not any(seq[m] for m in group.members):
            continue
        n_cmp += 1
        refseq = [e.sig() for e in seq[ref]]
        for m in group.mandatory[1:]:
            s = [e.sig() for e in seq[m]]
            if not _same_seq(s, refseq, wildcard_idx):
                _record(failures, func, group, ref, m, seq, path, cfg)
        for m in group.optional:
            s = [e.sig() for e in seq[m]]
            if _same_seq(s, refseq, wildcard_idx):
                continue
            # explained absences: each unmatched reference event must be followed (before
            # the next reference event) by an 'absent' decision for m, or preceded by one
            ok = _optional_ok(seq[ref], pos[ref], seq[m], dec[m], len(path), wildcard_idx)
            if not ok:
                _record(failures, func, group, ref, m, seq, path, cfg)
    for (m, kind), info in sorted(failures.items()):
        ctx.ob(rid, '%s:%s=%s' % (func.qualname, kind, m), False, info['where'],
               'group %s: member %r is not transformed in lockstep with %r: %s' % (
                   group.name, m, ref, info['text']), info)
    ok_members = [m for m in group.members if not any(k[0] == m for k in failures)]
    for m in ok_members:
        if m in touched or m in group.mandatory:
            ctx.ob(rid, '%s:lockstep(%s.%s)' % (func.qualname, group.name, m), True,
                   func.where(), 'member %r undergoes the same structural updates as %r on all '
                   '%d distinct event paths' % (m, ref, n_cmp))
    return n_cmp, touched


def _same_seq(a, b, wildcard_idx):
    if len(a) != len(b):
        return False
    for x, y in zip(a, b):
        if x == y:
            continue
        if x[0] == y[0] and x[2:] == y[2:] and (x[1] in wildcard_idx or y[1] in wildcard_idx):
            continue
        return False
    return True


def _optional_ok(ref_events, ref_pos, opt_events, decisions, plen, wildcard_idx):
    """Align optional events with reference events; every unmatched reference event
    needs an explicit 'absent' decision in its window; no surplus optional event."""
    j = 0
    bounds = [0] + ref_pos + [plen]
    for k, re_ in enumerate(ref_events):
        if j < len(opt_events) and _same_seq([opt_events[j].sig()], [re_.sig()], wildcard_idx):
            j += 1
            continue
        lo = bounds[k]          # previous reference event (or path start)
        hi = bounds[k + 2]      # next reference event (or path end)
        if not any(lo <= p < hi and d == 'absent' for p, d in decisions):
            return False
    return j == len(opt_events)


def _record(failures, func, group, ref, m, seq, path, cfg):
    a = [e.sig() for e in seq[ref]]
    b = [e.sig() for e in seq[m]]
    kind = 'missing' if len(b) < len(a) else ('extra' if len(b) > len(a) else 'mismatch')
    if (m, kind) in failures:
        return
    # first differing reference event for the location
    where = func.where()
    culprit = None
    for i in range(max(len(a), len(b))):
        if i >= len(a) or i >= len(b) or a[i] != b[i]:
            culprit = (seq[ref][i] if i < len(a) else seq[m][i])
            break
    if culprit is not None:
        where = func.where(culprit.ast)
    text = '%r: %s   vs   %r: %s' % (ref, [_sig_text(x) for x in a], m,
                                      [_sig_text(x) for x in b])
    failures[(m, kind)] = {
        'where': where, 'text': text,
        'path_lines': [cfg.nodes[n].lineno for n in path if cfg.nodes[n].lineno],
        'reference_events': [repr(e) for e in seq[ref]],
        'member_events': [repr(e) for e in seq[m]],
    }


# ---------------------------------------------------------------------------
# local list expansion, L6 record consistency, derived members
# ---------------------------------------------------------------------------

def bulk_deletion_view(func):
    """A view of `func` in which a loop that removes, from the highest index down, the entries
    selected by an index array E from several records

        for v in E[::-1]:  rec.pop(v); arr = np.delete(arr, v); ...

    is replaced by the removal of the index set E from each record (`rec.pop(E)`,
    `np.delete(arr, E)`), which is what the loop amounts to.  A record deleted one entry at a
    time inside such a loop and a record deleted once with `np.delete(arr, E)` after it then
    produce the same event, DELETE(E).  Loops that do not run in descending order are left as
    they are (their removals shift later indices: rule T6)."""
    import copy
    from .loader import FuncInfo
    node = copy.deepcopy(func.node)
    count = [0]

    def descending(it):
        if isinstance(it, ast.Subscript) and isinstance(it.slice, ast.Slice) and \
                it.slice.lower is None and it.slice.upper is None and \
                isinstance(it.slice.step, ast.UnaryOp) and \
                isinstance(it.slice.step.op, ast.USub) and \
                isinstance(it.slice.step.operand, ast.Constant) and \
                it.slice.step.operand.value == 1:
            return it.value
        if isinstance(it, ast.Call) and dotted(it.func) == 'reversed' and it.args:
            return it.args[0]
        if isinstance(it, ast.Call) and dotted(it.func) == 'sorted' and it.args and any(
                k.arg == 'reverse' and isinstance(k.value, ast.Constant) and
                k.value.value is True for k in it.keywords):
            return it.args[0]
        return None

    def only_deletions(stmts, v):
        for st in stmts:
            if isinstance(st, ast.If):
                if any(isinstance(x, ast.Name) and x.id == v for x in ast.walk(st.test)):
                    return False
                if not only_deletions(st.body, v) or not only_deletions(st.orelse, v):
                    return False
                continue
            uses = [x for x in ast.walk(st) if isinstance(x, ast.Name) and x.id == v]
            if not uses:
                return False
            ok = False
            if isinstance(st, ast.Expr) and isinstance(st.value, ast.Call) and \
                    isinstance(st.value.func, ast.Attribute) and st.value.func.attr == 'pop' \
                    and len(st.value.args) == 1 and isinstance(st.value.args[0], ast.Name):
                ok = True
            if isinstance(st, ast.Assign) and isinstance(st.value, ast.Call) and \
                    dotted(st.value.func) == 'np.delete' and len(st.value.args) >= 2 and \
                    isinstance(st.value.args[1], ast.Name) and st.value.args[1].id == v:
                ok = True
            if isinstance(st, ast.Delete) and all(
                    isinstance(t, ast.Subscript) and isinstance(t.slice, ast.Name) and
                    t.slice.id == v for t in st.targets):
                ok = True
            if not ok or len(uses) != 1:
                return False
        return True

    class Rw(ast.NodeTransformer):
        def visit_For(self, lp):
            self.generic_visit(lp)
            if not isinstance(lp.target, ast.Name) or lp.orelse:
                return lp
            src = descending(lp.iter)
            if src is None or not only_deletions(lp.body, lp.target.id):
                return lp
            count[0] += 1
            tmp = '_removed_%d' % count[0] if not isinstance(src, ast.Name) else src.id
            out = []
            if not isinstance(src, ast.Name):
                a = ast.Assign(targets=[ast.Name(id=tmp, ctx=ast.Store())], value=src)
                out.append(ast.copy_location(a, lp))

            class Sub(ast.NodeTransformer):
                def visit_Name(self, n):
                    if n.id == lp.target.id and isinstance(n.ctx, ast.Load):
                        return ast.copy_location(ast.Name(id=tmp, ctx=ast.Load()), n)
                    return n
            for st in lp.body:
                out.append(Sub().visit(st))
            return out

        def visit_FunctionDef(self, n):
            if n is node:
                self.generic_visit(n)
            return n

    node = Rw().visit(node)
    if not count[0]:
        return func
    ast.fix_missing_locations(node)
    clone = FuncInfo(func.qualname, node, func.module, func.cls, func.kind)
    return clone


def local_list_pushes(func, name, before_nid):
    """Payloads appended to the local list `name` (initialised as [] once, appended
    unconditionally outside loops) before CFG node `before_nid`; None if not that shape."""
    cfg = cfg_of(func)
    inits, pushes = [], []
    for n in walk_no_nested(func.node):
        if isinstance(n, ast.Assign) and len(n.targets) == 1 and \
                isinstance(n.targets[0], ast.Name) and n.targets[0].id == name:
            inits.append(n)
        if isinstance(n, ast.Call) and isinstance(n.func, ast.Attribute) and \
                n.func.attr == 'append' and isinstance(n.func.value, ast.Name) and \
                n.func.value.id == name and cfg.has(n):
            pushes.append(n)
    if len(inits) != 1:
        return None
    v = inits[0].value
    payloads = []
    if isinstance(v, (ast.List, ast.Tuple)):
        payloads = list(v.elts)
    elif isinstance(v, ast.ListComp):
        return None
    else:
        return None
    for p in sorted(pushes, key=lambda x: cfg.node_of(x).id):
        nid = cfg.node_of(p).id
        if not cfg.dominates(nid, before_nid):
            return None
        if cfg.can_reach(nid, nid):
            return None     # inside a loop
        payloads.append(p.args[0])
    return payloads


class ExpandingTracker(Tracker):
    """Tracker that expands PUSHLIST of a local list into its individual pushes."""

    def _record_set_keys(self):
        """Index keys under which a list member has its record replaced in place
        (`self.bounds[index] = new`)."""
        if getattr(self, '_rsk', None) is None:
            keys = {}
            for n in self.cfg.nodes:
                for e in Tracker.events_of(self, n):
                    if e.op == 'SET' and e.level == 'elem' and e.idx is not None:
                        keys.setdefault(e.idx, set()).add(n.id)
            self._rsk = keys
        return self._rsk

    def _near_record_set(self, e):
        """Is the array store on a path with a list-record replacement at the same index?"""
        for nid in self._record_set_keys().get(e.idx, ()):
            if nid == e.nid or self.cfg.can_reach(nid, e.nid) or self.cfg.can_reach(e.nid, nid):
                return True
        return False

    def events_of(self, node):
        out = []
        for e in Tracker.events_of(self, node):
            if e.op == 'MARK' and e.level == 'elem' and e.idx is not None and \
                    e.idx in self._record_set_keys() and self._near_record_set(e):
                # array[index] = v next to list[index] = new record: the array's entry of the
                # same record is replaced as well
                out.append(Event(e.member, 'elem', e.idx, 'SET', None, e.payload, e.ast, e.nid,
                                 {'from_mark': True}))
                continue
            if e.op == 'PUSHLIST' and isinstance(e.payload, ast.Name):
                pl = local_list_pushes(self.func, e.payload.id, node.id)
                if pl is not None:
                    for x in pl:
                        out.append(Event(e.member, e.level, e.idx, 'PUSH', None, x, e.ast, e.nid,
                                         {'via': e.payload.id}))
                    continue
            out.append(e)
        return out


def rule_derived(ctx, rid, func, source, derived, tracker, extra_src_nodes=()):
    """A derived member is rebuilt wholesale from its source after the last structural
    change of the source on every path (post-dominance)."""
    cfg = tracker.cfg
    ev = tracker.all_events()
    src_nodes = {nid for nid, es in ev.items() for e in es
                 if e.member == source and e.op in STRUCTURAL and e.level == 'list'}
    src_nodes |= set(extra_src_nodes)       # calls to helpers that change the source
    if not src_nodes:
        return
    rebuilds = set()
    for n in cfg.nodes:
        if n.kind == 'stmt' and isinstance(n.ast, ast.Assign):
            for t in n.ast.targets:
                if isinstance(t, ast.Attribute) and isinstance(t.value, ast.Name) and \
                        t.value.id == func.self_name and t.attr == derived:
                    # rebuilt from the source: the value iterates over / reads self.<source>
                    if any(isinstance(s, ast.Attribute) and s.attr == source and
                           isinstance(s.value, ast.Name) and s.value.id == func.self_name
                           for s in ast.walk(n.ast.value)):
                        rebuilds.add(n.id)
    loop_heads = {n.id for n in cfg.nodes if n.kind == 'test' and isinstance(n.ast, ast.While)}
    # alternative: the derived member is maintained in lockstep (same deletions, same number
    # of pushes) instead of being rebuilt
    s_sigs = sorted((e.op, e.sel) for es in ev.values() for e in es
                    if e.member == source and e.op in STRUCTURAL and e.level == 'list')
    d_sigs = sorted((e.op, e.sel) for es in ev.values() for e in es
                    if e.member == derived and e.op in STRUCTURAL and e.level == 'list'
                    and e.op != 'SET')
    if s_sigs and s_sigs == d_sigs:
        ctx.ob(rid, '%s:derived(%s<-%s)@lockstep' % (func.qualname, derived, source), True,
               func.where(), '%r undergoes the same structural updates as %r' % (derived, source))
        return
    for s in sorted(src_nodes):
        ok = bool(rebuilds) and cfg.must_pass(s, cfg.exit.id, rebuilds)
        # and no structural change of the source after the last rebuild (within one
        # iteration of an enclosing driver loop)
        stale = [r for r in rebuilds if any(cfg.can_reach(r, s2, avoid=loop_heads)
                                            for s2 in src_nodes)]
        ok = ok and not stale
        ctx.ob(rid, '%s:derived(%s<-%s)@%d' % (func.qualname, derived, source,
                                               sorted(src_nodes).index(s)), ok,
               func.where(cfg.nodes[s].ast),
               '%r is rebuilt from %r after this change on every path to the exit' % (
                   derived, source) if ok else
               '%r is not rebuilt from %r after this structural change (stale derived record)'
               % (derived, source))

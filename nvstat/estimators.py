"""E -- the estimator algebra of C02, decided on the formulas of the source.

The per-shell statistics and the global estimators are products / quotients of a handful of
positive quantities, written in the log domain.  In the log domain they are *linear forms*
over the symbols

    lVb  log volume of the shell's bound          ln   log number of held samples of the shell
    lN   log number of proposals of the shell     lS1  log sum_j L_j      lS2  log sum_j L_j^2

so "the formula computes the importance-sampling estimator" is an equality of linear forms
with rational coefficients, decided exactly here:

 E1  shell volume         shell_log_v            == lVb + ln - lN          (V_b times kept fraction)
 E2  evidence term        shell_log_l+shell_log_v == lS1 + lVb - lN          (sum_j L_j V_b / N)
 E3  Kish per shell       log shell_n_eff        == 2 lS1 - lS2
 E4  evidence             log_z                  == logsumexp(shell_log_l + shell_log_v)
 E5  per-sample weight    log w_j                == shell_log_v - ln + l_j  in posterior(),
                          f_live and log_v_live, so that sum_j w_j over a shell equals the
                          shell's evidence term (E2) -- weights and evidence describe the
                          same samples;  posterior() normalises by logsumexp of the same vector
 E6  Kish overall         n_eff = (sum_s Z_s)^2 / sum_s Z_s^2 / n_eff_s  with the per-shell
                          denominator equal to sum_j w_j^2 (given E1-E3) and a shift that cancels

A formula outside the small expression language (+, -, scalar *, /, np.log of products and
quotients, np.exp, logsumexp of an affine image of the sample vector, np.repeat, selections) is
reported as not decided, never as a violation.
"""
import ast
from fractions import Fraction

from .cfg import cfg_of
from .exprs import dotted, unparse, walk_no_nested


class Undecided(Exception):
    pass


def _c(e):
    if isinstance(e, ast.Constant) and isinstance(e.value, (int, float)) and \
            not isinstance(e.value, bool):
        return Fraction(e.value).limit_denominator(10 ** 6)
    if isinstance(e, ast.UnaryOp) and isinstance(e.op, ast.USub):
        v = _c(e.operand)
        return None if v is None else -v
    return None


def add(p, q, s=1):
    out = dict(p)
    for k, v in q.items():
        out[k] = out.get(k, 0) + s * v
    return {k: v for k, v in out.items() if v != 0}


def scale(p, c):
    return {k: v * c for k, v in p.items() if v * c != 0}


def same(p, q):
    return all(p.get(k, 0) == q.get(k, 0) for k in set(p) | set(q))


def fmt(p):
    if not p:
        return '0'
    out = []
    for k in sorted(p, key=str):
        v = p[k]
        name = k if isinstance(k, str) else str(k)
        out.append(('%s' % name) if v == 1 else ('-%s' % name) if v == -1 else
                   '%s*%s' % (v, name))
    return ' + '.join(out).replace('+ -', '- ')


class LogAlgebra:
    """Evaluate expressions to linear forms.  `atom(e)` maps an expression to a log-domain
    symbol (its value IS a log quantity), `pos(e)` maps an expression to a linear-domain
    positive symbol (np.log of it is the symbol 'l<name>'), `vec(e)` recognises the per-sample
    log-likelihood vector.  Names are expanded through env (single definitions)."""

    def __init__(self, cfg, atom, pos, vec=None, opaque=()):
        self.cfg, self.atom, self.pos, self.vec = cfg, atom, pos, vec or (lambda e: False)
        self.opaque = set(opaque)      # names that are symbols themselves, never expanded
        self.nid = None

    def at(self, stmt):
        """Evaluate names as they are defined when `stmt` executes."""
        self.nid = self.cfg.node_of(stmt).id
        return self

    def _def(self, name):
        """(value expr, def node id) of the single definition of `name` reaching here."""
        if name in self.opaque or self.nid is None:
            return None
        defs = self.cfg.defs_at(self.nid, name)
        if len(defs) != 1:
            return None
        d = next(iter(defs))
        dn = self.cfg.nodes[d]
        if dn.kind == 'stmt' and isinstance(dn.ast, ast.Assign) and len(dn.ast.targets) == 1 \
                and isinstance(dn.ast.targets[0], ast.Name) and dn.ast.targets[0].id == name:
            return dn.ast.value, d
        return None

    def _in(self, nid, fn, *a):
        old, self.nid = self.nid, nid
        try:
            return fn(*a)
        finally:
            self.nid = old

    strip = staticmethod(lambda e: e)

    # value of e as a linear form over log symbols (e is itself a log-domain number)
    def L(self, e, depth=0):
        if depth > 14:
            raise Undecided('expression too deep')
        e = self.strip(e)
        c = _c(e)
        if c is not None:
            if c == 0:
                return {}
            return {('const', c): Fraction(1)}
        a = self.atom(e)
        if a is not None:
            return {a: Fraction(1)}
        if self.vec(e):
            return {'l_j': Fraction(1)}
        if isinstance(e, ast.Name) and self._def(e.id):
            v, d = self._def(e.id)
            return self._in(d, self.L, v, depth + 1)
        if isinstance(e, ast.UnaryOp) and isinstance(e.op, ast.USub):
            return scale(self.L(e.operand, depth + 1), -1)
        if isinstance(e, ast.BinOp):
            if isinstance(e.op, (ast.Add, ast.Sub)):
                return add(self.L(e.left, depth + 1), self.L(e.right, depth + 1),
                           1 if isinstance(e.op, ast.Add) else -1)
            if isinstance(e.op, ast.Mult):
                cl, cr = _c(e.left), _c(e.right)
                if cl is not None:
                    return scale(self.L(e.right, depth + 1), cl)
                if cr is not None:
                    return scale(self.L(e.left, depth + 1), cr)
            if isinstance(e.op, ast.Div):
                cr = _c(e.right)
                if cr:
                    return scale(self.L(e.left, depth + 1), 1 / cr)
        if isinstance(e, ast.Call):
            d = dotted(e.func) or ''
            if d in ('np.log', 'math.log', 'log') and len(e.args) == 1:
                return self.P(e.args[0], depth + 1)
            if d.endswith('logsumexp') and e.args:
                inner = self.L(e.args[0], depth + 1)
                k = inner.get('l_j', 0)
                if k and k.denominator == 1 and k > 0:
                    rest = {x: v for x, v in inner.items() if x != 'l_j'}
                    return add({'lS%d' % k: Fraction(1)}, rest)
                raise Undecided('logsumexp of `%s`' % unparse(e.args[0])[:40])
            if d == 'np.repeat' and len(e.args) >= 2:
                return self.L(e.args[0], depth + 1)      # expansion per sample keeps the value
        if isinstance(e, ast.Subscript):
            # a selection / slice of a vector keeps the per-element formula
            return self.L(e.value, depth + 1)
        raise Undecided('`%s` is outside the formula language' % unparse(e)[:50])

    # log of the linear-domain (positive) expression e
    def P(self, e, depth=0):
        if depth > 14:
            raise Undecided('expression too deep')
        e = self.strip(e)
        c = _c(e)
        if c is not None and c > 0:
            return {} if c == 1 else {('logconst', c): Fraction(1)}
        p = self.pos(e)
        if p is not None:
            return {p: Fraction(1)}
        if isinstance(e, ast.Name) and self._def(e.id):
            v, d = self._def(e.id)
            return self._in(d, self.P, v, depth + 1)
        if isinstance(e, ast.BinOp):
            if isinstance(e.op, ast.Mult):
                return add(self.P(e.left, depth + 1), self.P(e.right, depth + 1))
            if isinstance(e.op, ast.Div):
                return add(self.P(e.left, depth + 1), self.P(e.right, depth + 1), -1)
            if isinstance(e.op, ast.Pow):
                k = _c(e.right)
                if k is not None:
                    return scale(self.P(e.left, depth + 1), k)
        if isinstance(e, ast.Call):
            d = dotted(e.func) or ''
            if d == 'np.exp' and len(e.args) == 1:
                return self.L(e.args[0], depth + 1)
            if d in ('np.maximum', 'max') and len(e.args) == 2 and _c(e.args[1]) == 1:
                return self.P(e.args[0], depth + 1)      # max(n, 1) = n wherever rows exist
            if d in ('np.sqrt',) and len(e.args) == 1:
                return scale(self.P(e.args[0], depth + 1), Fraction(1, 2))
            if d in ('float', 'np.float64') and len(e.args) == 1:
                return self.P(e.args[0], depth + 1)
        if isinstance(e, ast.Subscript):
            return self.P(e.value, depth + 1)
        raise Undecided('`%s` is outside the formula language' % unparse(e)[:50])


def _single_defs(func):
    env, multi = {}, set()
    for s in walk_no_nested(func.node):
        if isinstance(s, ast.Assign) and len(s.targets) == 1 and \
                isinstance(s.targets[0], ast.Name):
            nm = s.targets[0].id
            if nm in env:
                multi.add(nm)
            env[nm] = s.value
        elif isinstance(s, ast.AugAssign) and isinstance(s.target, ast.Name):
            multi.add(s.target.id)
    return env, multi


def _self_attr(e, attr=None):
    """self.<attr> possibly subscripted -> attr name."""
    while isinstance(e, ast.Subscript):
        e = e.value
    if isinstance(e, ast.Attribute) and isinstance(e.value, ast.Name) and e.value.id == 'self':
        if attr is None or e.attr == attr:
            return e.attr
    return None


# ---------------------------------------------------------------------------
# per-shell statistics
# ---------------------------------------------------------------------------

def shell_forms(ctx, rid, report=True):
    """Forms of shell_log_v, shell_log_l, log shell_n_eff as written by update_shell_info on
    its main path (rows present, finite likelihoods).  -> dict attr -> form, or None."""
    f = ctx.program.func('Sampler.update_shell_info')
    cfg = cfg_of(f)
    env, multi = _single_defs(f)
    lname = [n for n, v in env.items() if _self_attr(v) == 'log_l']
    nvars = {n for n, v in env.items() if isinstance(v, ast.Call) and dotted(v.func) == 'len'
             and v.args and isinstance(v.args[0], ast.Name) and v.args[0].id in lname}
    Nvars = {n for n in set(env) | multi
             if any(isinstance(s, (ast.Assign, ast.AugAssign)) and
                    ((isinstance(s, ast.Assign) and isinstance(s.targets[0], ast.Name) and
                      s.targets[0].id == n) or
                     (isinstance(s, ast.AugAssign) and isinstance(s.target, ast.Name) and
                      s.target.id == n)) and
                    any(_self_attr(x) == 'shell_n_sample' for x in ast.walk(s.value))
                    for s in walk_no_nested(f.node))}
    opaque = Nvars | nvars | set(lname)

    def atom(e):
        if isinstance(e, ast.Attribute) and e.attr == 'log_v' and \
                _self_attr(e.value) == 'bounds':
            return 'lVb'
        return None

    def pos(e):
        if isinstance(e, ast.Name) and e.id in nvars:
            return 'ln'
        if isinstance(e, ast.Call) and dotted(e.func) == 'len' and e.args and \
                isinstance(e.args[0], ast.Name) and e.args[0].id in lname:
            return 'ln'
        if _self_attr(e) == 'shell_n':
            return 'ln'
        if isinstance(e, ast.Name) and e.id in Nvars:
            return 'lN'
        if _self_attr(e) == 'shell_n_sample':
            return 'lN'
        return None

    def vec(e):
        return isinstance(e, ast.Name) and e.id in lname

    alg = LogAlgebra(cfg, atom, pos, vec, opaque)
    out = {}
    for attr, log_domain in (('shell_log_v', True), ('shell_log_l', True),
                             ('shell_n_eff', False)):
        cands = [n for n in cfg.nodes if n.kind == 'stmt' and isinstance(n.ast, ast.Assign) and
                 _self_attr(n.ast.targets[0]) == attr]
        # the main path: the assignment whose value mentions the data (not the constants
        # -inf / nan / 0 / len of the degenerate branches)
        main = [n for n in cands if any(
            isinstance(x, ast.Call) and (dotted(x.func) or '').endswith(('logsumexp', 'log'))
            or (isinstance(x, ast.Attribute) and x.attr == 'log_v')
            for x in ast.walk(n.ast.value))]
        if not main:
            ctx.ob(rid, 'Sampler.update_shell_info:computes(%s)' % attr, False, f.where(),
                   '%s is never computed from the held samples / the bound volume in '
                   'update_shell_info: it keeps whatever value it had' % attr)
            continue
        if len(main) != 1:
            ctx.note('%s not decided: main assignment of %s not identified' % (rid, attr))
            continue
        v = main[0].ast.value
        try:
            alg.at(main[0].ast)
            out[attr] = (alg.L(v) if log_domain else alg.P(v), main[0].ast)
        except Undecided as exc:
            ctx.note('%s not decided for %s: %s' % (rid, attr, exc))
    return f, out


def rule_E_shell(ctx, rid='E'):
    ctx.rule(rid, 'estimator algebra: the formulas of update_shell_info, log_z, n_eff, '
             'posterior, f_live and log_v_live are, as exact linear forms in the log domain, the '
             'importance-sampling estimators of the held samples (volume = bound volume x kept '
             'fraction, evidence term = sum L_j V_b/N, Kish sizes, weights that sum to the '
             'evidence and are normalised by their own sum)')
    f, forms = shell_forms(ctx, rid)
    n = 0
    F = Fraction
    if 'shell_log_v' in forms:
        fm, node = forms['shell_log_v']
        want = {'lVb': F(1), 'ln': F(1), 'lN': F(-1)}
        ok = same(fm, want)
        n += 1
        ctx.ob(rid, 'Sampler.update_shell_info:shell-volume', ok, f.where(node),
               'shell_log_v = %s: bound volume times the fraction of proposals kept' % fmt(fm)
               if ok else 'shell_log_v = %s, not lVb + ln - lN (bound volume times the fraction '
               'n/N of proposals that stayed in the shell)' % fmt(fm))
    if 'shell_log_v' in forms and 'shell_log_l' in forms:
        fm = add(forms['shell_log_v'][0], forms['shell_log_l'][0])
        want = {'lS1': F(1), 'lVb': F(1), 'lN': F(-1)}
        ok = same(fm, want)
        n += 1
        ctx.ob(rid, 'Sampler.update_shell_info:evidence-term', ok, f.where(forms['shell_log_l'][1]),
               'shell_log_l + shell_log_v = %s: the sum over the held samples of likelihood '
               'times per-sample volume V_b/N' % fmt(fm) if ok else
               'shell_log_l + shell_log_v = %s, not lS1 + lVb - lN: the shell\'s evidence term '
               'is not sum_j L_j x (bound volume / proposals)' % fmt(fm))
    if 'shell_n_eff' in forms:
        fm, node = forms['shell_n_eff']
        want = {'lS1': F(2), 'lS2': F(-1)}
        ok = same(fm, want)
        n += 1
        ctx.ob(rid, 'Sampler.update_shell_info:kish-per-shell', ok, f.where(node),
               'log shell_n_eff = %s: (sum L)^2 / sum L^2' % fmt(fm) if ok else
               'log shell_n_eff = %s, not 2 lS1 - lS2: not the Kish effective sample size of '
               'the shell\'s likelihoods' % fmt(fm))
    if 'shell_n_eff' in forms:
        n += _kish_guard(ctx, rid, f, forms['shell_n_eff'][1])
    n += _consumers(ctx, rid, {k: v[0] for k, v in forms.items()})
    return n


def _kish_guard(ctx, rid, f, node):
    """The Kish formula is 0/0 only when EVERY likelihood of the shell is zero; it is the right
    value as soon as one is not.  So the formula is applied under "not all log_l are -inf"
    (some finite value exists) - `np.all(log_l > -inf)` instead sends a shell with a single
    zero-likelihood point to the fallback (n_eff = number of points)."""
    from .cfg import cfg_of
    cfg = cfg_of(f)
    if not cfg.has(node):
        return 0
    guards = [(cfg.nodes[t].expr, lab) for t, lab in cfg.strict_guards(cfg.node_of(node).id)
              if cfg.nodes[t].expr is not None and 'inf' in unparse(cfg.nodes[t].expr)]
    if not guards:
        ctx.ob(rid, 'Sampler.update_shell_info:kish-guard', False, f.where(node),
               'the Kish formula is applied without excluding the all-zero-likelihood shell '
               '(0/0 -> NaN)')
        return 1
    e, lab = guards[-1]
    neg = not lab
    while isinstance(e, ast.UnaryOp) and isinstance(e.op, ast.Not):
        neg, e = not neg, e.operand
    verdict = None      # True: "some likelihood is non-zero"; False: something else
    if isinstance(e, ast.Call) and dotted(e.func) in ('np.all', 'np.any', 'all', 'any') and e.args:
        q = dotted(e.func).split('.')[-1]
        c = e.args[0]
        if isinstance(c, ast.Compare) and len(c.ops) == 1 and 'inf' in unparse(c.comparators[0]):
            is_eq = isinstance(c.ops[0], ast.Eq)
            is_ne = isinstance(c.ops[0], (ast.NotEq, ast.Gt))
            # not all(x == -inf)  |  any(x != -inf) / any(x > -inf)
            if q == 'all' and is_eq and neg:
                verdict = True
            elif q == 'any' and is_ne and not neg:
                verdict = True
            elif q in ('all', 'any'):
                verdict = False
        elif isinstance(c, ast.Call) and dotted(c.func) in ('np.isfinite',):
            verdict = (q == 'any' and not neg)
    ctx.require(verdict is not None, 'E not decided: guard `%s` of the Kish formula' % unparse(e))
    ctx.ob(rid, 'Sampler.update_shell_info:kish-guard', verdict, f.where(node),
           'the Kish formula is used whenever some likelihood of the shell is non-zero' if verdict
           else 'the Kish formula is used only under `%s%s`: a shell in which SOME points have '
           'zero likelihood falls through to the all-zero fallback and reports the number of '
           'points as its effective sample size' % ('not ' if neg else '', unparse(e)))
    return 1


# ---------------------------------------------------------------------------
# global estimators built from the per-shell statistics
# ---------------------------------------------------------------------------

def _shell_algebra(func, lvec_names=()):
    env = None

    def atom(e):
        a = _self_attr(e)
        if a == 'shell_log_v':
            return 'B'
        if a == 'shell_log_l':
            return 'A'
        if isinstance(e, ast.Call) and dotted(e.func) in ('np.nanmax', 'np.amax', 'np.max',
                                                          'np.nanmin') and e.args:
            return 'c'          # an arbitrary common shift
        return None

    def pos(e):
        a = _self_attr(e)
        if a == 'shell_n':
            return 'ln'
        if a == 'shell_n_eff':
            return 'E'
        return None

    def vec(e):
        if isinstance(e, ast.Call) and dotted(e.func) == 'np.concatenate' and e.args:
            x = e.args[0]
            if _self_attr(x) == 'log_l':
                return True
            if isinstance(x, (ast.ListComp, ast.GeneratorExp)) and \
                    isinstance(x.generators[0].iter, ast.Call) and \
                    dotted(x.generators[0].iter.func) == 'zip' and \
                    any(_self_attr(a) == 'log_l' for a in x.generators[0].iter.args):
                return True
            if isinstance(x, (ast.ListComp, ast.GeneratorExp)) and \
                    _self_attr(x.generators[0].iter) == 'log_l':
                return True
        return False

    return LogAlgebra(cfg_of(func), atom, pos, vec), env


def posterior_normalisation(ctx, rid):
    """The weights posterior() returns are last set by `w = w - logsumexp(w)`."""
    prog = ctx.program
    f = prog.func('Sampler.posterior')
    n = 0
    cfgp = cfg_of(f)
    from .exprs import as_aug
    for r_ in walk_no_nested(f.node):
        if not (isinstance(r_, ast.Return) and isinstance(r_.value, ast.Tuple) and
                len(r_.value.elts) >= 2 and isinstance(r_.value.elts[1], ast.Name) and
                cfgp.has(r_)):
            continue
        wname = r_.value.elts[1].id
        for d in sorted(cfgp.defs_at(cfgp.node_of(r_).id, wname)):
            dn = cfgp.nodes[d]
            r = as_aug(dn.ast) if dn.kind == 'stmt' else None
            ok = False
            if r is not None:
                t, op, v = r
                ok = isinstance(op, ast.Sub) and isinstance(v, ast.Call) and \
                    (dotted(v.func) or '').endswith('logsumexp') and len(v.args) == 1 and \
                    not v.keywords and unparse(v.args[0]) == unparse(t)
            n += 1
            ctx.ob(rid, 'Sampler.posterior:weights-normalised-by-own-sum', ok,
                   f.where(dn.ast if dn.ast is not None else r_),
                   'the returned log weights are reduced by the logsumexp of that very vector: '
                   'they sum to one' if ok else
                   'the returned weights are last set by `%s`, which does not subtract the '
                   'logsumexp of the weight vector itself: they do not sum to one'
                   % (unparse(dn.ast)[:60] if dn.ast is not None else '?'))

    return n


def _consumers(ctx, rid, shell):
    prog = ctx.program
    n = 0
    F = Fraction
    A = shell.get('shell_log_l')
    B1 = shell.get('shell_log_v')
    E = shell.get('shell_n_eff')

    def subst(form):
        """Express a shell-level form in the sample-level symbols."""
        out = {}
        for k, v in form.items():
            rep = {'A': A, 'B': B1, 'E': E}.get(k)
            if rep is None and k in ('A', 'B', 'E'):
                raise Undecided('per-shell form of %s unknown' % k)
            out = add(out, scale(rep, v) if rep is not None else {k: v})
        return out

    # ---- E4 log_z
    f = prog.func('Sampler.log_z')
    alg, env = _shell_algebra(f)
    rets = [r for r in walk_no_nested(f.node) if isinstance(r, ast.Return) and
            isinstance(r.value, ast.Call) and (dotted(r.value.func) or '').endswith('logsumexp')]
    if len(rets) == 1:
        try:
            fm = alg.at(rets[0]).L(rets[0].value.args[0])
            ok = same(fm, {'A': F(1), 'B': F(1)})
            n += 1
            ctx.ob(rid, 'Sampler.log_z:sum-of-evidence-terms', ok, f.where(rets[0]),
                   'log_z = logsumexp(%s) over the shells' % fmt(fm) if ok else
                   'log_z = logsumexp(%s), not logsumexp(shell_log_l + shell_log_v): not the '
                   'sum of the shells\' evidence terms' % fmt(fm))
        except Undecided as exc:
            ctx.note('%s not decided for log_z: %s' % (rid, exc))
    else:
        ctx.note('%s not decided for log_z: no single logsumexp return' % rid)

    # ---- E5 per-sample weights in posterior / f_live / log_v_live
    for q in ('Sampler.posterior', 'Sampler.f_live', 'Sampler.log_v_live'):
        f = prog.func(q)
        alg, env = _shell_algebra(f)
        # the per-sample log volume: np.repeat(<shell form>, self.shell_n)
        reps = [s for s in walk_no_nested(f.node) if isinstance(s, ast.Assign) and
                isinstance(s.value, ast.Call) and dotted(s.value.func) == 'np.repeat' and
                len(s.value.args) >= 2 and _self_attr(s.value.args[1]) == 'shell_n' and
                any(_self_attr(x) == 'shell_log_v' for x in ast.walk(s.value.args[0]))]
        if len(reps) != 1:
            ctx.note('%s not decided for %s: per-sample volume expansion not identified'
                     % (rid, q))
            continue
        try:
            fm = alg.at(reps[0]).L(reps[0].value.args[0])
        except Undecided as exc:
            ctx.note('%s not decided for %s: %s' % (rid, q, exc))
            continue
        ok = same(fm, {'B': F(1), 'ln': F(-1)})
        n += 1
        ctx.ob(rid, '%s:per-sample-volume' % q, ok, f.where(reps[0]),
               'per-sample log volume = %s: the shell volume shared equally by its samples'
               % fmt(fm) if ok else
               'per-sample log volume = %s, not shell_log_v - log(shell_n): the samples of a '
               'shell do not share its volume' % fmt(fm))
        if q == 'Sampler.log_v_live':
            continue
        vname = reps[0].targets[0].id if isinstance(reps[0].targets[0], ast.Name) else None
        ws = [s for s in walk_no_nested(f.node) if isinstance(s, ast.Assign) and
              isinstance(s.targets[0], ast.Name) and isinstance(s.value, ast.BinOp) and
              any(isinstance(x, ast.Name) and x.id == vname for x in ast.walk(s.value))]
        if not ws:
            ctx.note('%s not decided for %s: weight vector not identified' % (rid, q))
            continue
        try:
            wf = alg.at(ws[0]).L(ws[0].value)
            okw = same(wf, {'B': F(1), 'ln': F(-1), 'l_j': F(1)})
            n += 1
            ctx.ob(rid, '%s:weight-is-likelihood-times-volume' % q, okw, f.where(ws[0]),
                   'log w_j = %s' % fmt(wf) if okw else
                   'log w_j = %s, not shell_log_v - log(shell_n) + log L_j' % fmt(wf))
            # sum over a shell of w_j equals the shell's evidence term
            if okw and A is not None and B1 is not None:
                tot = add(subst({'B': F(1), 'ln': F(-1)}), {'lS1': F(1)})
                ev = subst({'A': F(1), 'B': F(1)})
                oks = same(tot, ev)
                n += 1
                ctx.ob(rid, '%s:weights-sum-to-evidence-term' % q, oks, f.where(ws[0]),
                       'sum_j w_j over a shell = %s = exp(shell_log_l + shell_log_v): the '
                       'weights and log_z describe the same samples' % fmt(tot) if oks else
                       'sum_j w_j over a shell is %s but the shell\'s evidence term is %s: '
                       'posterior weights and log_z disagree' % (fmt(tot), fmt(ev)))
        except Undecided as exc:
            ctx.note('%s not decided for %s: %s' % (rid, q, exc))

    # posterior(): normalisation by the sum of the same vector
    f = prog.func('Sampler.posterior')
    n += posterior_normalisation(ctx, rid)

    # ---- E6 n_eff: the returned value as a monomial in sums over the shells
    f = prog.func('Sampler.n_eff')
    alg, env = _shell_algebra(f)
    sums = []
    sum_ix = {}

    def mono(e, depth=0):
        """{index of a shell sum | other symbol: power}; a sum is np.sum(<per-shell term>)."""
        if depth > 10:
            raise Undecided('expression too deep')
        if isinstance(e, ast.Name) and alg._def(e.id):
            v, d = alg._def(e.id)
            return alg._in(d, mono, v, depth + 1)
        if isinstance(e, ast.Call) and dotted(e.func) in ('np.sum', 'sum', 'np.nansum') and \
                len(e.args) == 1:
            if id(e) not in sum_ix:
                sums.append(alg.P(e.args[0]))
                sum_ix[id(e)] = len(sums) - 1
            return {('sum', sum_ix[id(e)]): F(1)}
        if isinstance(e, ast.BinOp):
            if isinstance(e.op, ast.Mult):
                return add(mono(e.left, depth + 1), mono(e.right, depth + 1))
            if isinstance(e.op, ast.Div):
                return add(mono(e.left, depth + 1), mono(e.right, depth + 1), -1)
            if isinstance(e.op, ast.Pow) and _c(e.right) is not None:
                return scale(mono(e.left, depth + 1), _c(e.right))
        if _c(e) is not None and _c(e) > 0:
            return {} if _c(e) == 1 else {('const', _c(e)): F(1)}
        raise Undecided('`%s` is not a product / quotient / power of sums over the shells'
                        % unparse(e)[:50])
    ret = [r for r in walk_no_nested(f.node) if isinstance(r, ast.Return) and
           r.value is not None and not isinstance(r.value, ast.Constant)]
    if len(ret) == 1:
        try:
            alg.at(ret[0])
            m = mono(ret[0].value)
            pw = sorted((v, k) for k, v in m.items())
            shape_ok = len(sums) == 2 and sorted(v for v in m.values()) == [F(-1), F(2)] and \
                all(k[0] == 'sum' for k in m)
            n += 1
            ctx.ob(rid, 'Sampler.n_eff:square-of-sum-over-sum', shape_ok, f.where(ret[0]),
                   'n_eff = (sum over shells)^2 / (sum over shells)' if shape_ok else
                   'n_eff is returned as %s of %d shell sums, not as the square of one sum '
                   'divided by another' % ([(str(v), k[0]) for v, k in pw], len(sums)))
            if shape_ok:
                ix = [k[1] for k, v in m.items() if v == 2][0]
                iy = [k[1] for k, v in m.items() if v == -1][0]
                x, y = sums[ix], sums[iy]
                okx = same({k: v for k, v in x.items() if k != 'c'}, {'A': F(1), 'B': F(1)})
                n += 1
                ctx.ob(rid, 'Sampler.n_eff:numerator-is-evidence', okx, f.where(ret[0]),
                       'numerator sums exp(%s) over the shells' % fmt(x) if okx else
                       'the numerator of n_eff sums exp(%s), not the shells\' evidence terms'
                       % fmt(x))
                hom = 2 * x.get('c', 0) == y.get('c', 0)
                n += 1
                ctx.ob(rid, 'Sampler.n_eff:shift-cancels', hom, f.where(ret[0]),
                       'the common shift enters numerator^2 and denominator with the same power'
                       if hom else 'the stabilising shift does not cancel between numerator and '
                       'denominator: n_eff depends on the scale of the likelihood')
                if A is not None and B1 is not None and E is not None:
                    ys = subst({k: v for k, v in y.items() if k != 'c'})
                    want = add(scale(add(B1, {'ln': F(-1)}), 2), {'lS2': F(1)})
                    oky = same(ys, want)
                    n += 1
                    ctx.ob(rid, 'Sampler.n_eff:denominator-is-sum-of-squared-weights', oky,
                           f.where(ret[0]),
                           'per shell the denominator is %s = sum_j w_j^2: n_eff is the Kish '
                           'size of the held samples' % fmt(ys) if oky else
                           'per shell the denominator is %s but sum_j w_j^2 is %s: n_eff is not '
                           'the Kish effective sample size of the weights' % (fmt(ys), fmt(want)))
        except Undecided as exc:
            ctx.note('%s not decided for n_eff: %s' % (rid, exc))
    else:
        ctx.note('%s not decided for n_eff: no single non-constant return' % rid)

    # ---- f_live: the live share of the evidence, exp(lse(w_live) - lse(w))
    f = prog.func('Sampler.f_live')
    cfgf = cfg_of(f)
    for r in walk_no_nested(f.node):
        if not (isinstance(r, (ast.Return, ast.Assign)) and isinstance(r.value, ast.Call) and
                dotted(r.value.func) == 'np.exp' and r.value.args):
            continue        # returned directly, or stored (e.g. memoised) and returned later
        a = r.value.args[0]
        ok = isinstance(a, ast.BinOp) and isinstance(a.op, ast.Sub) and all(
            isinstance(x, ast.Call) and (dotted(x.func) or '').endswith('logsumexp') and x.args
            for x in (a.left, a.right))
        whole = live = None
        if ok:
            live, whole = a.left.args[0], a.right.args[0]
            # the live weights are a selection of the whole weight vector
            lv = live
            if isinstance(lv, ast.Name) and cfgf.has(r):
                ds = cfgf.defs_at(cfgf.node_of(r).id, lv.id)
                if len(ds) == 1 and isinstance(cfgf.nodes[next(iter(ds))].ast, ast.Assign):
                    lv = cfgf.nodes[next(iter(ds))].ast.value
            base = lv
            while isinstance(base, ast.Subscript):
                base = base.value
            ok = unparse(base) == unparse(whole)
        n += 1
        ctx.ob(rid, 'Sampler.f_live:live-share-of-evidence', ok, f.where(r),
               'f_live = exp(logsumexp(live weights) - logsumexp(all weights)), the live weights '
               'being a selection of all weights' if ok else
               'f_live is `%s`: not the ratio of the live weights\' sum to the sum of all '
               'weights' % unparse(r.value)[:70])
    # fail closed on clauses that could not be decided: an anchored formula in a shape the
    # algebra does not understand is an analysis error, not a pass
    need = ['Sampler.update_shell_info:shell-volume', 'Sampler.update_shell_info:evidence-term',
            'Sampler.update_shell_info:kish-per-shell', 'Sampler.log_z:sum-of-evidence-terms',
            'Sampler.posterior:per-sample-volume', 'Sampler.f_live:per-sample-volume',
            'Sampler.log_v_live:per-sample-volume',
            'Sampler.posterior:weight-is-likelihood-times-volume',
            'Sampler.f_live:weight-is-likelihood-times-volume',
            'Sampler.posterior:weights-normalised-by-own-sum',
            'Sampler.n_eff:square-of-sum-over-sum', 'Sampler.f_live:live-share-of-evidence']
    have = {o.construct for o in ctx.obligations if o.rule == rid}
    missing = [c for c in need if c not in have]
    if missing:
        ctx.floor_failures.append('rule %s could not decide %s (%s)' % (
            rid, missing, '; '.join(x for x in ctx.notes if x.startswith(rid))[:300]))
    return n


def rule_neff_guard(ctx, rid='E'):
    """n_eff: the early `return 0` stands for "no shell has any effective sample yet".  Taken
    under "SOME shell has none" (`np.any(shell_n_eff == 0)`), the reported effective sample size
    drops to 0 whenever one shell is still empty - during the whole exploration - although the
    estimator of the stored samples is positive."""
    f = ctx.program.func('Sampler.n_eff')
    n = 0
    for st in walk_no_nested(f.node):
        if not (isinstance(st, ast.If) and st.body and isinstance(st.body[0], ast.Return)):
            continue
        r = st.body[0].value
        if not (isinstance(r, ast.Constant) and r.value in (0, 0.0)):
            continue
        t = st.test
        neg = False
        while isinstance(t, ast.UnaryOp) and isinstance(t.op, ast.Not):
            neg, t = not neg, t.operand
        verdict = None
        if isinstance(t, ast.Call) and t.args and isinstance(t.args[0], ast.Compare) and \
                len(t.args[0].ops) == 1:
            q = (dotted(t.func) or '').split('.')[-1]
            c = t.args[0]
            zero = isinstance(c.comparators[0], ast.Constant) and c.comparators[0].value == 0
            if zero and q in ('all', 'any'):
                op = type(c.ops[0])
                if op in (ast.Eq, ast.LtE):          # x == 0
                    verdict = (q == 'all' and not neg)
                elif op in (ast.Gt, ast.NotEq):      # x > 0
                    verdict = (q == 'any' and neg)
        elif isinstance(t, ast.Compare) and len(t.ops) == 1 and isinstance(t.left, ast.Call) and \
                (dotted(t.left.func) or '') in ('np.sum', 'np.amax', 'np.max', 'np.nanmax') and \
                isinstance(t.comparators[0], ast.Constant) and t.comparators[0].value == 0 and \
                isinstance(t.ops[0], (ast.Eq, ast.LtE)) and not neg:
            verdict = True
        if verdict is None:
            ctx.note('E not decided: early-return test `%s` of Sampler.n_eff' % unparse(t)[:50])
            ctx.floor_failures.append('rule E could not decide the zero guard of Sampler.n_eff')
            continue
        n += 1
        ctx.ob(rid, 'Sampler.n_eff:zero-only-when-every-shell-is-empty', verdict, f.where(st),
               'n_eff is 0 only when no shell has an effective sample' if verdict else
               '`%s` returns 0 as soon as ONE shell has no effective sample: during exploration '
               '(empty shells are normal) the reported n_eff is 0 although the estimator of the '
               'stored samples is positive' % unparse(st.test)[:50])
    ctx.require(n >= 1, 'E: the zero guard of Sampler.n_eff was not found')
    return n

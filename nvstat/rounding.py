"""Q5 -- the multiplicity of the equal-weight resampling has the stochastic-rounding form.

posterior(equal_weight=True) must repeat row j  floor(r_j) or floor(r_j)+1  times with
expectation r_j = w_j / max(w) * boost.  That holds by construction for the two canonical
forms

        floor(r) + [u < r - floor(r)]          and          floor(r + u)

with u one double-precision uniform per row.  The rule evaluates, along every bounded path of
posterior() with equal_weight true, the expression that ends up as the repeat count / index /
mask of each view array in a small symbolic domain (R, floor(R), uniform, Bernoulli(frac R),
their sums, np.repeat(np.arange(n), m)) and demands one of the canonical forms.  A path on
which only the Bernoulli part is applied (a boolean mask) is accepted only when the branch
conditions of that path bound the boost strictly below one (then r < 1 and floor(r) = 0);
`boost <= 1` is not enough: the maximum-weight row has r = boost = 1 exactly.

Expressions outside the small language are reported as not decided, never as violations.
"""
import ast

from .cfg import cfg_of, enumerate_paths, edge_facts, PathLimit
from .exprs import dotted, unparse

R, F, U, B, M = 'R', 'F', 'U', 'B', 'M'      # symbolic values
UNK = '?'


def _strip_astype(e):
    while isinstance(e, ast.Call) and isinstance(e.func, ast.Attribute) and \
            e.func.attr in ('astype', 'copy') :
        e = e.func.value
    if isinstance(e, ast.Call) and dotted(e.func) in ('np.asarray', 'np.array', 'int',
                                                      'np.int64', 'np.intp') and e.args:
        return _strip_astype(e.args[0])
    return e


class Eval:
    def __init__(self, boost='equal_weight_boost'):
        self.boost = boost

    def ev(self, e, env):
        e0 = e
        e = _strip_astype(e)
        if e is not e0 and isinstance(e0, ast.Call) and isinstance(e0.func, ast.Attribute) and \
                e0.func.attr == 'astype':
            inner = self.ev(e, env)
            # R.astype(int) truncates: floor for the positive r
            if inner == R and e0.args and unparse(e0.args[0]) in ('int', 'np.int64', 'np.intp'):
                return F
            return inner
        if isinstance(e, ast.Name):
            return env.get(e.id, UNK)
        if isinstance(e, ast.Call):
            d = dotted(e.func) or ''
            if d == 'np.floor' and len(e.args) == 1:
                a = self.ev(e.args[0], env)
                if a == R:
                    return F
                if a == ('R+U',):
                    return M
                return UNK
            if d in ('np.round', 'np.rint', 'np.ceil', 'np.trunc', 'np.around', 'round') and \
                    e.args and self.ev(e.args[0], env) == R:
                return ('DET', d)
            if d in ('self.rng.random', 'rng.random') or d.endswith('.rng.random') or \
                    d.endswith('rng.uniform'):
                return U
            if d == 'np.repeat' and len(e.args) >= 2 and not any(
                    k.arg == 'axis' for k in e.keywords):
                base = e.args[0]
                dom = getattr(self, 'domain', None)
                if isinstance(base, ast.Call) and dotted(base.func) == 'np.arange':
                    if dom is not None:
                        # r was computed for the rows `dom` only: positions 0..len(dom)-1 are
                        # positions in the FILTERED set, not rows of the view arrays
                        return ('IDXDOM', dom, unparse(base)[:40])
                    return ('IDX', self.ev(e.args[1], env))
                if dom is not None and isinstance(base, ast.Name) and base.id == dom:
                    return ('IDX', self.ev(e.args[1], env))
                return UNK
            if d in ('np.flatnonzero',) and e.args and isinstance(e.args[0], ast.Compare) and \
                    len(e.args[0].ops) == 1 and isinstance(e.args[0].ops[0], ast.Gt) and \
                    unparse(e.args[0].comparators[0]) in ('-np.inf', '-inf', "-float('inf')"):
                return ('SEL', unparse(e.args[0].left))
            if d in ('np.flatnonzero',) and e.args:
                v = self.ev(e.args[0], env)
                return ('IDX', v) if v in (B,) else UNK
            if d in ('np.append', 'np.concatenate', 'np.hstack', 'np.r_') and e.args:
                parts = list(e.args[:2]) if d == 'np.append' else (
                    list(e.args[0].elts) if isinstance(e.args[0], (ast.List, ast.Tuple)) else [])
                vals = [self.ev(x, env) for x in parts]
                if vals and all(isinstance(v, tuple) and v[0] == 'IDX' for v in vals):
                    # two index lists laid end to end: right multiplicities, wrong order
                    return ('IDXCAT', tuple(v[1] for v in vals))
                return UNK
            if d in ('np.sort', 'sorted') and e.args:
                v = self.ev(e.args[0], env)
                if isinstance(v, tuple) and v[0] == 'IDXCAT' and set(v[1]) == {F, B}:
                    return ('IDX', M)       # sorting the concatenated index restores the order
                return v if isinstance(v, tuple) and v[0] == 'IDX' else UNK
            return UNK
        if isinstance(e, ast.BinOp):
            if isinstance(e.op, ast.Mult) and self._is_r(e, env):
                return R
            l, r = self.ev(e.left, env), self.ev(e.right, env)
            if isinstance(e.op, ast.Add):
                if {l, r} == {F, B}:
                    return M
                if {l, r} == {F, ('BR',)}:
                    return ('F+BR',)
                if {l, r} == {R, U}:
                    return ('R+U',)
                return UNK
            if isinstance(e.op, ast.Sub):
                if l == R and r == F:
                    return ('frac',)
                return UNK
            if isinstance(e.op, ast.Mod):
                if l == R and isinstance(e.right, ast.Constant) and e.right.value == 1:
                    return ('frac',)
                return UNK
            if isinstance(e.op, ast.FloorDiv):
                if l == R and isinstance(e.right, ast.Constant) and e.right.value == 1:
                    return F
                return UNK
            return UNK
        if isinstance(e, ast.Compare) and len(e.ops) == 1:
            l, r = self.ev(e.left, env), self.ev(e.comparators[0], env)
            if isinstance(e.ops[0], ast.Lt) and l == U and r == ('frac',):
                return B
            if isinstance(e.ops[0], ast.Gt) and l == ('frac',) and r == U:
                return B
            if (isinstance(e.ops[0], (ast.Lt, ast.LtE)) and l == U and r == R) or \
                    (isinstance(e.ops[0], (ast.Gt, ast.GtE)) and l == R and r == U):
                return ('BR',)      # Bernoulli with probability min(r, 1), not frac(r)
            return UNK
        return UNK

    def _is_r(self, e, env):
        """exp(x - max(x)) * boost, in either order."""
        def is_boost(x):
            return isinstance(x, ast.Name) and x.id == self.boost

        def is_relw(x):
            if isinstance(x, ast.Name) and env.get(x.id) == ('relw',):
                return True
            if isinstance(x, ast.Call) and dotted(x.func) == 'np.exp' and len(x.args) == 1 and \
                    isinstance(x.args[0], ast.BinOp) and isinstance(x.args[0].op, ast.Sub):
                s = x.args[0]
                if isinstance(s.right, ast.Call) and dotted(s.right.func) in (
                        'np.amax', 'np.max', 'max') and s.right.args and \
                        unparse(s.right.args[0]) == unparse(s.left):
                    return True
                # the relative weight of a SELECTION of rows: log_w[sel] - max(log_w) with
                # sel = flatnonzero(log_w > -inf) (the maximum is that of the selected rows)
                if isinstance(s.right, ast.Call) and dotted(s.right.func) in (
                        'np.amax', 'np.max', 'max') and s.right.args and \
                        isinstance(s.left, ast.Subscript) and \
                        isinstance(s.left.slice, ast.Name) and \
                        unparse(s.right.args[0]) == unparse(s.left.value) and \
                        env.get(s.left.slice.id) == ('SEL', unparse(s.left.value)):
                    self.domain = s.left.slice.id
                    return True
            return False
        return (is_boost(e.left) and is_relw(e.right)) or (is_boost(e.right) and is_relw(e.left))


def _boost_below_one(facts, boost):
    """Do the branch facts of a path bound the boost strictly below 1?"""
    for atom, text, truth in facts:
        t = atom
        if not (isinstance(t, ast.Compare) and len(t.ops) == 1):
            continue
        l, op, r = t.left, t.ops[0], t.comparators[0]
        if isinstance(r, ast.Name) and r.id == boost and isinstance(l, ast.Constant):
            # c op boost  ->  boost op' c
            flip = {ast.Lt: ast.Gt, ast.Gt: ast.Lt, ast.LtE: ast.GtE, ast.GtE: ast.LtE}
            if type(op) not in flip:
                continue
            l, op, r = r, flip[type(op)](), l
        if not (isinstance(l, ast.Name) and l.id == boost and isinstance(r, ast.Constant) and
                isinstance(r.value, (int, float))):
            continue
        c = r.value
        if truth:
            if isinstance(op, ast.Lt) and c <= 1:
                return True
            if isinstance(op, ast.LtE) and c < 1:
                return True
        else:
            if isinstance(op, ast.GtE) and c <= 1:      # not (boost >= c)  ->  boost < c
                return True
            if isinstance(op, ast.Gt) and c < 1:        # not (boost > c)   ->  boost <= c < 1
                return True
    return False


def rule_Q5(ctx, rid='Q5'):
    ctx.rule(rid, 'stochastic rounding: on every path of posterior(equal_weight=True) the '
             'multiplicity applied to the view arrays is floor(r) + [u < r - floor(r)] or '
             'floor(r + u) with r = exp(log_w - max log_w) * boost; a Bernoulli-only mask is '
             'admitted only under branch conditions that force boost < 1')
    f = ctx.program.func('Sampler.posterior')
    cfg = cfg_of(f)
    params = f.params
    boost = 'equal_weight_boost' if 'equal_weight_boost' in params else None
    ctx.require(boost, 'Sampler.posterior: parameter equal_weight_boost not found')
    evl = Eval(boost)
    try:
        paths = list(enumerate_paths(cfg, max_loop=1, limit=20000))
    except PathLimit:
        ctx.note('Q5 not decided: too many paths through posterior()')
        return 0
    seen = {}
    undecided = set()
    for path, preds, end in paths:
        if end != cfg.exit.id:
            continue
        env, facts = {}, []
        evl.domain = None
        eq = None
        for i, nid in enumerate(path):
            n = cfg.nodes[nid]
            if n.kind == 'test' and i + 1 < len(path):
                labs = [lab for s, lab in n.succ if s == path[i + 1] and lab in (True, False)]
                if len(labs) == 1:
                    fs = edge_facts(n.expr, labs[0])
                    facts += fs
                    for _, tx, tr in fs:
                        if tx == 'equal_weight':
                            eq = tr
                continue
            if n.kind == 'stmt' and isinstance(n.ast, (ast.Assign, ast.AugAssign)):
                # an element store / in-place update of a name that holds the multiplicities
                tg = n.ast.targets[0] if isinstance(n.ast, ast.Assign) else n.ast.target
                base = tg
                while isinstance(base, ast.Subscript):
                    base = base.value
                if isinstance(base, ast.Name) and (tg is not base or
                                                   isinstance(n.ast, ast.AugAssign)) and \
                        env.get(base.id) in (M, F, B) :
                    env[base.id] = ('MUT', env[base.id], unparse(n.ast)[:50])
                    continue
            if n.kind != 'stmt' or not isinstance(n.ast, ast.Assign) or \
                    len(n.ast.targets) != 1 or not isinstance(n.ast.targets[0], ast.Name):
                continue
            tgt, v = n.ast.targets[0].id, n.ast.value
            mult = None
            if isinstance(v, ast.Call) and dotted(v.func) == 'np.repeat' and len(v.args) >= 2 \
                    and any(k.arg == 'axis' for k in v.keywords) and \
                    isinstance(v.args[0], ast.Name) and v.args[0].id == tgt:
                mult = evl.ev(v.args[1], env)
            elif isinstance(v, ast.Subscript) and isinstance(v.value, ast.Name) and \
                    v.value.id == tgt and eq:
                s = evl.ev(v.slice, env)
                mult = s[1] if isinstance(s, tuple) and s[0] == 'IDX' else s
                if isinstance(s, tuple) and s[0] == 'IDXCAT':
                    mult = s
            elif isinstance(v, ast.Call) and dotted(v.func) == 'np.take' and len(v.args) >= 2 \
                    and isinstance(v.args[0], ast.Name) and v.args[0].id == tgt and eq:
                s = evl.ev(v.args[1], env)
                mult = s[1] if isinstance(s, tuple) and s[0] == 'IDX' else s
            if mult is not None and eq:
                key = (nid, tgt)
                if isinstance(mult, tuple) and mult[0] == 'IDXDOM':
                    verdict = (False, 'the multiplicities were computed for the selected rows '
                               '`%s` only, but the gather index `%s` counts positions in that '
                               'selection and is applied to the unfiltered view array: from the '
                               'first unselected row on, the repeats of one sample go to '
                               'another (use np.repeat(%s, ..))' % (mult[1], mult[2], mult[1]))
                elif evl.domain is not None and isinstance(v, ast.Call) and \
                        dotted(v.func) == 'np.repeat':
                    verdict = (False, 'the multiplicities were computed for the selected rows '
                               '`%s` only but are applied to every row of `%s`'
                               % (evl.domain, tgt))
                elif mult == M:
                    verdict = (True, 'multiplicity is floor(r) + [u < r - floor(r)]')
                elif mult == B:
                    if _boost_below_one(facts, boost):
                        verdict = (True, 'Bernoulli-only mask on a path where boost < 1 '
                                   '(floor(r) = 0)')
                    else:
                        verdict = (False, 'on a path through `%s` only the Bernoulli part '
                                   '[u < r - floor(r)] selects the rows, but the branch '
                                   'conditions do not force boost < 1: a row with r >= 1 (the '
                                   'maximum-weight row at boost = 1 has r = 1 exactly) gets '
                                   'multiplicity 0 instead of floor(r)' % unparse(n.ast)[:40])
                elif mult == F:
                    verdict = (False, 'multiplicity is floor(r) without the stochastic part: '
                               'its expectation is not r')
                elif mult in (('F+BR',), ('BR',)):
                    verdict = (False, 'the stochastic part compares the draw with r instead of '
                               'its fractional part r - floor(r): every row with r >= 1 gets one '
                               'repeat too many')
                elif isinstance(mult, tuple) and mult[0] == 'DET':
                    verdict = (False, 'multiplicity is %s(r): deterministic rounding, its '
                               'expectation is not r' % mult[1])
                elif isinstance(mult, tuple) and mult[0] == 'IDXCAT':
                    verdict = (False, 'the rows are gathered with an index that lists the '
                               'guaranteed copies of all samples first and the stochastic extra '
                               'copies after them: the multiplicities are right but the order '
                               'of the weighted posterior is not preserved (copies of one '
                               'sample are no longer adjacent)')
                elif isinstance(mult, tuple) and mult[0] == 'MUT':
                    verdict = (False, 'the multiplicities are modified after the stochastic '
                               'rounding (`%s`): on that path a row\'s multiplicity is no longer '
                               'floor(r) or floor(r)+1 with expectation r (the draw is '
                               'conditioned / overridden)' % mult[2])
                elif mult == R:
                    verdict = (False, 'the real-valued r is used as a repeat count (truncated '
                               'by NumPy without stochastic rounding)')
                else:
                    verdict = None
                    undecided.add((n.lineno, unparse(n.ast)[:50]))
                if verdict is not None:
                    old = seen.get(key)
                    if old is None or (old[0] and not verdict[0]):
                        seen[key] = verdict + (n.ast,)
                continue
            # ordinary assignment: update the symbolic environment
            val = evl.ev(v, env)
            if val == UNK and isinstance(v, ast.Call) and dotted(v.func) == 'np.exp':
                tmp = ast.BinOp(left=v, op=ast.Mult(), right=ast.Name(id=boost, ctx=ast.Load()))
                if evl._is_r(tmp, env):
                    val = ('relw',)
            env[tgt] = val
    def role(name):
        """points / log_l / blobs: the stored array a view local was built from."""
        firsts = sorted((st.lineno, st) for st in ast.walk(f.node) if isinstance(st, ast.Assign)
                        and len(st.targets) == 1 and isinstance(st.targets[0], ast.Name) and
                        st.targets[0].id == name)
        for _, st in firsts:
            for x in ast.walk(st.value):
                if isinstance(x, ast.Attribute) and isinstance(x.value, ast.Name) and \
                        x.value.id == f.self_name and x.attr in ('points', 'log_l', 'blobs'):
                    return x.attr
        return name
    for (nid, tgt), (ok, why, node) in sorted(seen.items()):
        ctx.ob(rid, 'Sampler.posterior:multiplicity(%s)' % role(tgt), ok, f.where(node), why)
    for ln, txt in sorted(undecided):
        ctx.note('Q5 not decided for `%s` (line %d): form outside the rule\'s language' % (txt, ln))
    if not seen:
        ctx.note('Q5 decided nothing: no recognisable resampling of the view arrays')
    return len(seen)

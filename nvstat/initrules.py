"""I1 -- fresh records are empty and fresh counters are zero.

A new sampler holds no samples, no per-shell records and has made no likelihood call; a new
shell starts without rows and with zero counts.  The rule reads the initial values off the
assignments in Sampler.__init__ and off the entries pushed by add_bound:

  rows      self.points / log_l / blobs start as empty lists; the row arrays pushed for a new
            shell have zero rows (np.zeros((0, n_dim)), np.zeros(0), a [:0] slice) -- a phantom
            row would be a sample nobody drew;
  stats     the per-shell statistic arrays start with length zero; the counts pushed for a new
            shell (shell_n, shell_n_sample, shell_n_eff) are the literal 0 -- the proposal
            count N of V = V_b n/N must not start above zero;
  counter   n_like starts at the literal 0 and explored at False.
"""
import ast

from .exprs import dotted, unparse, walk_no_nested, const_value


def _zero_length(v):
    """np.zeros(0, ...) / np.zeros((0, k)) / np.empty(0) / [] / x[:0]"""
    if isinstance(v, (ast.List, ast.Tuple)) and not v.elts:
        return True
    if isinstance(v, ast.Call) and dotted(v.func) in ('np.zeros', 'np.empty', 'np.ones',
                                                      'np.array') and v.args:
        a = v.args[0]
        if const_value(a) == 0 and not isinstance(const_value(a), bool):
            return True
        if isinstance(a, (ast.Tuple, ast.List)) and a.elts and const_value(a.elts[0]) == 0:
            return True
        if isinstance(a, (ast.List, ast.Tuple)) and not a.elts:
            return True
        # np.zeros(x[:0].shape, ...)
        if isinstance(a, ast.Attribute) and a.attr == 'shape' and _zero_length(a.value):
            return True
    if isinstance(v, ast.Subscript) and isinstance(v.slice, ast.Slice) and \
            v.slice.lower is None and const_value(v.slice.upper) == 0:
        return True
    if isinstance(v, ast.Subscript):
        return _zero_length(v.value) if isinstance(v.slice, ast.Slice) and \
            const_value(v.slice.upper) == 0 else False
    return False


ROW_LISTS = ('points', 'log_l', 'blobs')
STAT_ARRAYS = ('shell_n', 'shell_n_sample', 'shell_n_eff', 'shell_log_l_min', 'shell_log_l',
               'shell_log_v', 'shell_n_sample_exp', 'shell_end_exp')
COUNTS = ('shell_n', 'shell_n_sample', 'shell_n_eff')


def rule_I1(ctx, parts, rid='I1'):
    ctx.rule(rid, 'fresh records are empty: a new sampler starts with empty row lists, '
             'zero-length per-shell arrays, n_like = 0 and explored = False; a new shell is '
             'pushed with zero rows and zero counts')
    prog = ctx.program
    init = prog.func('Sampler.__init__')
    ab = prog.func('Sampler.add_bound')
    n = 0

    def init_value(attr):
        """First assignment to self.<attr> in __init__ outside the resume block."""
        c = [st for st in walk_no_nested(init.node)
             if isinstance(st, ast.Assign) and len(st.targets) == 1 and
             dotted(st.targets[0]) == 'self.' + attr]
        top = [st for st in c if st in init.node.body]      # not the resume block
        c = top or c
        return min(c, key=lambda st: st.lineno) if c else None

    if 'rows' in parts:
        for a in ('points', 'log_l'):
            st = init_value(a)
            ok = st is not None and isinstance(st.value, (ast.List, ast.Tuple)) and \
                not st.value.elts
            n += 1
            ctx.ob(rid, 'Sampler.__init__:empty(%s)' % a, ok, init.where(st),
                   'self.%s starts as an empty list' % a if ok else
                   'self.%s does not start empty (`%s`)' % (a, unparse(st)[:50] if st else '?'))
        for a in ('points_t', 'shell_t', 'log_l_t'):
            st = init_value(a)
            ok = st is not None and _zero_length(st.value)
            n += 1
            ctx.ob(rid, 'Sampler.__init__:empty(%s)' % a, ok, init.where(st),
                   'the transfer set starts without candidates' if ok else
                   'self.%s does not start with zero rows (`%s`): a phantom transfer candidate'
                   % (a, unparse(st)[:50] if st else '?'))
        # rows pushed for a new shell
        for st in walk_no_nested(ab.node):
            if isinstance(st, ast.Call) and isinstance(st.func, ast.Attribute) and \
                    st.func.attr == 'append' and dotted(st.func.value) in (
                        'self.points', 'self.log_l', 'self.blobs') and st.args:
                a = dotted(st.func.value).split('.')[1]
                ok = _zero_length(st.args[0])
                n += 1
                ctx.ob(rid, 'Sampler.add_bound:new-shell-has-no-rows(%s)' % a, ok, ab.where(st),
                       'the new shell starts with zero rows of %s' % a if ok else
                       '`%s` gives the new shell a row nobody drew' % unparse(st)[:60])
    if 'stats' in parts:
        for a in STAT_ARRAYS:
            st = init_value(a)
            ok = st is not None and _zero_length(st.value)
            n += 1
            ctx.ob(rid, 'Sampler.__init__:empty(%s)' % a, ok, init.where(st),
                   'self.%s starts with length zero (no shell yet)' % a if ok else
                   'self.%s does not start with length zero (`%s`): a record without a bound'
                   % (a, unparse(st)[:50] if st else '?'))
        for st in walk_no_nested(ab.node):
            if isinstance(st, ast.Assign) and len(st.targets) == 1 and \
                    isinstance(st.value, ast.Call) and dotted(st.value.func) == 'np.append' and \
                    len(st.value.args) >= 2 and dotted(st.targets[0]) and \
                    dotted(st.targets[0]).split('.')[-1] in COUNTS and \
                    dotted(st.value.args[0]) == dotted(st.targets[0]):
                a = dotted(st.targets[0]).split('.')[-1]
                pushed = st.value.args[1]
                if isinstance(pushed, (ast.List, ast.Tuple)) and len(pushed.elts) == 1:
                    pushed = pushed.elts[0]
                v = const_value(pushed)
                ok = v == 0 and not isinstance(v, bool)
                n += 1
                ctx.ob(rid, 'Sampler.add_bound:new-shell-count-zero(%s)' % a, ok, ab.where(st),
                       'the new shell\'s %s starts at 0' % a if ok else
                       '`%s`: the new shell\'s %s does not start at 0 -- counts (and with them '
                       'V_b n/N) are off from the first batch on' % (unparse(st)[:60], a))
    if 'counter' in parts:
        st = init_value('n_like')
        v = const_value(st.value) if st is not None else None
        ok = v == 0 and not isinstance(v, bool)
        n += 1
        ctx.ob(rid, 'Sampler.__init__:n_like-starts-at-zero', ok, init.where(st),
               'n_like starts at 0' if ok else
               'n_like starts at `%s`: the reported number of likelihood calls is off by that '
               'amount and the budget test with it' % (unparse(st.value) if st else '?'))
        st = init_value('explored')
        ok = st is not None and isinstance(st.value, ast.Constant) and st.value.value is False
        n += 1
        ctx.ob(rid, 'Sampler.__init__:explored-starts-false', ok, init.where(st),
               'a new sampler has not explored yet' if ok else
               'explored does not start as False')
    return n


def _obj(f):
    for n in walk_no_nested(f.node):
        if isinstance(n, ast.Assign) and len(n.targets) == 1 and \
                isinstance(n.targets[0], ast.Name) and isinstance(n.value, ast.Call) and \
                isinstance(n.value.func, ast.Name) and n.value.func.id == 'cls':
            return n.targets[0].id
    return None


def rule_I2(ctx, rid='I2'):
    ctx.rule(rid, 'fresh and reset bounds: in compute() and reset() of Union and NautilusBound '
             'the proposal cache is set to zero rows and both counters to the literal 0 -- the '
             'counters describe exactly the proposals drawn since')
    prog = ctx.program
    n = 0
    for cname in ('Union', 'NautilusBound'):
        cls = prog.cls(cname)
        for m in ('compute', 'reset'):
            f = cls.methods.get(m)
            if f is None:
                continue
            for attr, want in (('points', 'rows'), ('n_sample', 0), ('n_reject', 0)):
                sts = [st for st in walk_no_nested(f.node) if isinstance(st, ast.Assign) and
                       len(st.targets) == 1 and isinstance(st.targets[0], ast.Attribute) and
                       st.targets[0].attr == attr and isinstance(st.targets[0].value, ast.Name)
                       and st.targets[0].value.id in (f.self_name, _obj(f))]
                if not sts:
                    ctx.ob(rid, '%s.%s:sets(%s)' % (cname, m, attr), False, f.where(),
                           '%s.%s() does not (re)initialise %s' % (cname, m, attr))
                    n += 1
                    continue
                for st in sts:
                    if want == 'rows':
                        ok = _zero_length(st.value)
                        msg = 'the proposal cache starts with zero rows' if ok else \
                            '`%s` leaves rows in the proposal cache that were never drawn from ' \
                            'this bound' % unparse(st)[:50]
                    else:
                        v = const_value(st.value)
                        ok = v == 0 and not isinstance(v, bool)
                        msg = '%s starts at 0' % attr if ok else \
                            '`%s`: the counter does not start at 0, so the accepted fraction ' \
                            '(and with it the reported volume) is off' % unparse(st)[:50]
                    n += 1
                    ctx.ob(rid, '%s.%s:fresh(%s)' % (cname, m, attr), ok, f.where(st), msg)
    return n

"""E3 EFFECTS: who may write, draw, call; what may depend on what (DESIGN.md E3)."""
import ast
import os

from .core import AnalysisError, VERIF
from .cfg import cfg_of
from .exprs import dotted, unparse, walk_no_nested, root_attr, const_value, kwarg
from .resolve import resolver, DRAWS, MUTATORS

ACCESSORS = ['log_z', 'n_eff', 'eta', 'f_live', 'log_v_live', 'posterior', 'shell_association',
             'shell_bound_occupation', 'evidence', 'effective_sample_size',
             'asymptotic_sampling_efficiency', 'print_status']

FRESH_CALLS = {'np.copy', 'np.array', 'np.concatenate', 'np.repeat', 'np.vstack', 'np.hstack',
               'np.append', 'np.zeros', 'np.ones', 'np.empty', 'np.zeros_like', 'np.exp',
               'np.log', 'np.sort', 'np.delete', 'np.where', 'np.maximum', 'np.minimum',
               'np.flatnonzero', 'np.argsort', 'np.sum', 'np.floor', 'np.amax', 'np.amin',
               'logsumexp', 'list', 'np.asarray_chkfinite', 'np.stack', 'np.einsum', 'np.dot',
               'np.linalg.inv', 'np.arange', 'np.unique', 'np.cumsum', 'np.diff', 'len',
               'range', 'np.any', 'np.all', 'np.isnan', 'np.argmax', 'np.argmin', 'np.mean',
               'np.std', 'dict', 'sorted', 'np.random.default_rng', 'np.atleast_2d'}
# np.atleast_2d / np.asarray / np.squeeze / reshape return views: NOT fresh (atleast_2d kept
# above only because its result is never mutated in place in this code base -- see F1 alias
# rule, which treats it as an alias below)
VIEW_CALLS = {'np.asarray', 'np.atleast_1d', 'np.atleast_2d', 'np.squeeze', 'np.ravel',
              'np.reshape', 'np.transpose', 'np.broadcast_to'}


# ---------------------------------------------------------------------------
# aliasing of state by locals
# ---------------------------------------------------------------------------

def aliases_state(func, cfg, nid, name, depth=0):
    """May local `name` at node `nid` be a view of / the same object as receiver state
    (or of a parameter)?  -> description or None."""
    if depth > 6:
        return 'deep alias chain'
    defs = cfg.defs_at(nid, name)
    for d in defs:
        dn = cfg.nodes[d]
        if dn.kind == 'entry':
            if name in func.params and name != func.self_name:
                return 'parameter %s' % name
            continue
        if dn.kind == 'for':
            # loop variable over state: elements are the stored objects
            it = dn.ast.iter
            for sub in ast.walk(it):
                if isinstance(sub, ast.Attribute) and isinstance(sub.value, ast.Name) and \
                        sub.value.id == func.self_name:
                    return 'element of self.%s' % sub.attr
            continue
        a = dn.ast
        if dn.kind == 'stmt' and isinstance(a, ast.Assign):
            v = a.value
            # tuple unpacking etc.: conservative
            r = _alias_expr(func, cfg, d, v, depth)
            if r:
                return r
    return None


def _alias_expr(func, cfg, nid, v, depth):
    if isinstance(v, (ast.Attribute, ast.Subscript)):
        ra = root_attr(v, func.self_name) if func.self_name else None
        if ra:
            # boolean-mask / fancy indexing copies; plain index and slices are views.
            if isinstance(v, ast.Subscript) and _index_makes_copy(cfg, nid, v.slice):
                return None
            return 'self.%s' % ra[0]
        base = v
        while isinstance(base, (ast.Attribute, ast.Subscript)):
            base = base.value
        if isinstance(base, ast.Name):
            return aliases_state(func, cfg, nid, base.id, depth + 1)
        return None
    if isinstance(v, ast.Name):
        return aliases_state(func, cfg, nid, v.id, depth + 1)
    if isinstance(v, ast.IfExp):
        return _alias_expr(func, cfg, nid, v.body, depth) or \
            _alias_expr(func, cfg, nid, v.orelse, depth)
    if isinstance(v, ast.Call):
        cn = dotted(v.func)
        if cn in VIEW_CALLS and v.args:
            return _alias_expr(func, cfg, nid, v.args[0], depth)
        if isinstance(v.func, ast.Attribute) and v.func.attr in ('reshape', 'view', 'ravel',
                                                                 'squeeze', 'transpose'):
            return _alias_expr(func, cfg, nid, v.func.value, depth)
        # a helper defined inside the function: fresh only if every value it returns is built
        # by a copying call; otherwise its result may be (a view of) one of its arguments
        if isinstance(v.func, ast.Name):
            for d_ in ast.walk(func.node):
                if isinstance(d_, ast.FunctionDef) and d_ is not func.node and \
                        d_.name == v.func.id:
                    rets = [r.value for r in ast.walk(d_) if isinstance(r, ast.Return) and
                            r.value is not None]
                    if all(isinstance(r, ast.Call) and dotted(r.func) in FRESH_CALLS
                           for r in rets):
                        return None
                    for a in list(v.args) + [k.value for k in v.keywords]:
                        w = _alias_expr(func, cfg, nid, a, depth + 1)
                        if w:
                            return w + ' (through the local helper %s)' % d_.name
    return None


def _index_makes_copy(cfg, nid, sl):
    """Boolean-mask or integer-array (fancy) indexing returns a copy: the index is a
    comparison / negation, or a local defined as one, or as an index array
    (flatnonzero, argsort, where, nonzero, arange)."""
    def is_mask(e, depth=0):
        if isinstance(e, (ast.Compare,)):
            return True
        if isinstance(e, ast.UnaryOp) and isinstance(e.op, (ast.Invert, ast.Not)):
            return is_mask(e.operand, depth)
        if isinstance(e, ast.BinOp) and isinstance(e.op, (ast.BitAnd, ast.BitOr)):
            return is_mask(e.left, depth) and is_mask(e.right, depth)
        if isinstance(e, ast.Call) and dotted(e.func) in (
                'np.isnan', 'np.isfinite', 'np.flatnonzero', 'np.argsort', 'np.where',
                'np.nonzero', 'np.arange', 'np.logical_and', 'np.logical_or', 'np.logical_not',
                'np.isin', 'np.argpartition'):
            return True
        if isinstance(e, ast.Name) and depth < 4:
            defs = cfg.defs_at(nid, e.id)
            if not defs:
                return False
            for d in defs:
                dn = cfg.nodes[d]
                if not (dn.kind == 'stmt' and isinstance(dn.ast, ast.Assign) and
                        is_mask(dn.ast.value, depth + 1)):
                    return False
            return True
        return False
    return is_mask(sl)


def local_state_mutations(func):
    """In-place mutations of locals that may alias receiver state or a parameter.
    -> [(ast node, local name, what it aliases)]"""
    cfg = cfg_of(func)
    out = []
    for n in walk_no_nested(func.node):
        tgt = None
        if isinstance(n, ast.Assign):
            for t in n.targets:
                if isinstance(t, ast.Subscript):
                    tgt = t
        elif isinstance(n, ast.AugAssign):
            tgt = n.target
        elif isinstance(n, ast.Call) and isinstance(n.func, ast.Attribute) and \
                n.func.attr in MUTATORS:
            d = dotted(n.func.value)
            if n.func.attr == 'shuffle' and d and d.split('.')[-1] == 'rng' and n.args:
                tgt = n.args[0]
            elif n.func.attr != 'update' or True:
                tgt = n.func.value
        if tgt is None or not cfg.has(n):
            continue
        base = tgt
        sub = False
        while isinstance(base, ast.Subscript):
            base = base.value
            sub = True
        if not isinstance(base, ast.Name) or base.id == func.self_name:
            continue
        if isinstance(n, ast.AugAssign) and not sub:
            # `x += 1` on a plain local: in place for arrays -- alias check still applies
            pass
        al = aliases_state(func, cfg, cfg.node_of(n).id, base.id)
        if al:
            out.append((n, base.id, al))
    return out


# ---------------------------------------------------------------------------
# F1 purity
# ---------------------------------------------------------------------------

def _param_default(func, name):
    a = func.node.args
    allp = a.posonlyargs + a.args
    defaults = [None] * (len(allp) - len(a.defaults)) + list(a.defaults)
    for p, d in zip(allp, defaults):
        if p.arg == name:
            return d
    for p, d in zip(a.kwonlyargs, a.kw_defaults):
        if p.arg == name:
            return d
    return None


def _param_guard(func, node):
    """Name of a parameter (default False/None) such that `node` executes only when
    it is truthy; else None."""
    cfg = cfg_of(func)
    nid = cfg.node_of(node).id
    for e, tx, truth in cfg.facts(nid):
        if isinstance(e, ast.Name) and e.id in func.params and truth is True:
            d = _param_default(func, e.id)
            if isinstance(d, ast.Constant) and d.value in (False, None):
                return e.id
    return None


PRIVATE_GENERATORS = ('copy.deepcopy', 'deepcopy', 'np.random.default_rng', 'np.random.Generator',
                      'numpy.random.default_rng')


def _private_generator(f, where, text):
    """The draw `text` at `where` in `f` is made on a local name every reaching definition of
    which is a fresh generator (deep copy of a generator / newly constructed): it does not
    advance any generator the sampler or a bound keeps."""
    cfg = cfg_of(f)
    for n in walk_no_nested(f.node):
        if isinstance(n, ast.Call) and f.where(n) == where and (dotted(n.func) or '') == text \
                and isinstance(n.func, ast.Attribute) and isinstance(n.func.value, ast.Name) \
                and n.func.value.id != f.self_name and n.func.value.id not in f.params \
                and cfg.has(n):
            defs = cfg.defs_at(cfg.node_of(n).id, n.func.value.id)
            if not defs:
                return False
            for d in defs:
                st = cfg.nodes[d].ast
                if not (isinstance(st, ast.Assign) and isinstance(st.value, ast.Call) and
                        dotted(st.value.func) in PRIVATE_GENERATORS):
                    return False
            return True
    return False


def purity(ctx, func, rid, allow_param_guarded=True, label=None):
    """Obligations: no state write, no rng draw (except parameter-guarded draws in
    `func` itself) in func and everything it calls."""
    prog = ctx.program
    res = resolver(prog)
    t = res.trans(func)
    label = label or func.qualname
    writes = sorted((c, a, k) for c, a, k in t.writes if c != '<local>')
    ctx.ob(rid, '%s:no-state-write' % label, not writes, func.where(),
           'writes no sampler/bound state (transitively over %d functions)' % len(t.reached)
           if not writes else 'writes state %s' % writes[:6],
           {'reached': t.reached})
    guarded = []
    bad = []
    private = []
    for where, text, f in t.draws:
        g = None
        if _private_generator(f, where, text):
            private.append((where, text))
            continue
        if f is func and allow_param_guarded:
            # find the ast node again
            for n in walk_no_nested(func.node):
                if isinstance(n, ast.Call) and func.where(n) == where and \
                        (dotted(n.func) or '') == text:
                    g = _param_guard(func, n)
        if g:
            guarded.append((where, text, g))
        else:
            bad.append((where, text))
    ctx.ob(rid, '%s:no-rng-draw' % label, not bad, func.where(),
           'draws no random numbers%s' % (
               '' if not guarded else ' except under parameter %s (recorded as '
               'parameter-guarded)' % sorted({g for _, _, g in guarded})) if not bad else
           'consumes random numbers at %s: the generator state, and with it every later '
           'result, depends on whether this was called' % bad[:4])
    # in-place mutation of state through local aliases
    muts = []
    for q in t.reached:
        f = prog.functions[q]
        for n, name, al in local_state_mutations(f):
            if al.startswith('parameter ') and (f is not func or name in ('group', 'fstream')):
                # a callee mutating its own parameter: what it aliases is decided at the
                # call site (persist.param_mutations); an HDF5 group is not sampler state
                continue
            muts.append((f.where(n), name, al))
    ctx.ob(rid, '%s:no-alias-mutation' % label, not muts, func.where(),
           'mutates no local that may alias stored state' if not muts else
           'mutates in place a local that may alias stored state: %s' % muts[:4])
    return guarded


def rule_F1(ctx, rid='F1', accessors=None):
    ctx.rule(rid, 'purity: the read-only accessors write no sampler or bound state, mutate no '
             'alias of it and draw no random numbers from a generator the sampler or a bound '
             'keeps (a draw control-dependent on an explicit parameter is recorded as '
             'parameter-guarded; a draw on a private deep copy of a generator does not count)')
    S = ctx.program.cls('Sampler')
    pg = []
    names = accessors or ACCESSORS
    for name in names:
        f = S.methods.get(name)
        ctx.require(f is not None, 'accessor Sampler.%s vanished' % name)
        pg += purity(ctx, f, rid)
    ctx.extra['parameter_guarded_draws'] = [list(x) for x in pg]
    return len(names)


# ---------------------------------------------------------------------------
# F6 who-may tables
# ---------------------------------------------------------------------------

def writers_of(prog, cls_name, attr, kinds=None):
    res = resolver(prog)
    out = {}
    for f in prog.functions.values():
        for c, a, k in res.direct(f).writes:
            if c == cls_name and a == attr and (kinds is None or k in kinds):
                out.setdefault(f.qualname, set()).add(k)
    return out


def rule_F6(ctx, rid='F6'):
    ctx.rule(rid, 'who-may tables: n_like is written only by __init__ and evaluate_likelihood; '
             'the likelihood is called only from evaluate_likelihood; explored is only ever set '
             'to True outside __init__; the list of bounds is structurally changed only by '
             'add_bound, run and __init__')
    prog = ctx.program
    w = writers_of(prog, 'Sampler', 'n_like')
    allowed = {'Sampler.__init__', 'Sampler.evaluate_likelihood'}
    if 'Sampler.evaluate_likelihood' not in w:
        ctx.ob(rid, 'n_like:writer(Sampler.evaluate_likelihood)', False,
               prog.func('Sampler.evaluate_likelihood').where(),
               'evaluate_likelihood, the only caller of the likelihood, does not write n_like: '
               'likelihood calls are made without being counted')
    for q in sorted(w):
        ctx.ob(rid, 'n_like:writer(%s)' % q, q in allowed, prog.functions[q].where(),
               'n_like is written by %s' % q)
    # likelihood callers
    callers = set()
    for f in prog.functions.values():
        if f.cls is None or f.cls.name != 'Sampler':
            continue
        for n in walk_no_nested(f.node):
            if isinstance(n, ast.Call):
                if dotted(n.func) == 'self.likelihood':
                    callers.add(f.qualname)
                d = dotted(n.func) or ''
                if (d == 'map' or d.endswith('.map') or d == 'partial') and n.args and \
                        dotted(n.args[0]) == 'self.likelihood':
                    callers.add(f.qualname)
    ctx.require('Sampler.evaluate_likelihood' in callers, 'evaluate_likelihood no longer calls '
                'the likelihood')
    for q in sorted(callers):
        ctx.ob(rid, 'likelihood:caller(%s)' % q, q == 'Sampler.evaluate_likelihood',
               prog.functions[q].where(), 'the likelihood is invoked from %s' % q)
    # explored monotone
    n_exp = 0
    for f in prog.cls('Sampler').methods.values():
        for n in walk_no_nested(f.node):
            if isinstance(n, ast.Assign):
                for t in n.targets:
                    if isinstance(t, ast.Attribute) and t.attr == 'explored' and \
                            isinstance(t.value, ast.Name) and t.value.id == f.self_name:
                        n_exp += 1
                        ok = f.name == '__init__' or (isinstance(n.value, ast.Constant) and
                                                      n.value.value is True)
                        ctx.ob(rid, 'explored:assign(%s)' % f.qualname, ok, f.where(n),
                               'explored is assigned `%s` in %s' % (unparse(n.value),
                                                                    f.qualname))
    ctx.require(n_exp >= 2, 'assignments to Sampler.explored not found')
    # structural writers of bounds
    w = writers_of(prog, 'Sampler', 'bounds', kinds={'assign', 'mutcall', 'del'})
    from .resolve import helper_closure
    allowed, _ = helper_closure(prog, prog.cls('Sampler'), {
        'Sampler.__init__', 'Sampler.add_bound', 'Sampler.run'})
    ctx.require('Sampler.add_bound' in w, 'add_bound no longer appends a bound')
    for q in sorted(w):
        ctx.ob(rid, 'bounds:structural-writer(%s)' % q, q in allowed, prog.functions[q].where(),
               'the list of bounds is structurally changed by %s' % q)


# ---------------------------------------------------------------------------
# F2 observational independence
# ---------------------------------------------------------------------------

FLAG_ALLOW = {
    'verbose': {'Sampler.print_status'},
    'self.filepath': {'Sampler.write', 'Sampler.write_shell_update'},
    'self.vectorized': set(),
    'self.pool_l': {'NautilusPool.map'},
}


def _mentions(e, flag):
    for sub in ast.walk(e):
        if (isinstance(sub, ast.Name) and sub.id == flag) or \
                (isinstance(sub, ast.Attribute) and dotted(sub) == flag):
            return True
    return False


def rule_F2p(ctx, rid='F2'):
    """Pool set-up in Sampler.__init__: `vectorized` only decides how the likelihood is called.
    Which pools exist, and their sizes (from which the default batch size and the split of the
    proposal work are derived), must not depend on it - otherwise a scalar and a vectorised
    run with the same settings differ."""
    ctx.rule(rid + 'p', 'the pools a sampler ends up with do not depend on `vectorized`: under a '
             'test of that flag a pool entry is only ever replaced by a NautilusPool built from '
             'the same entry')
    init = ctx.program.func('Sampler.__init__')
    cfg = cfg_of(init)
    n = 0
    for st in walk_no_nested(init.node):
        if not (isinstance(st, ast.Assign) and len(st.targets) == 1 and cfg.has(st)):
            continue
        t = st.targets[0]
        if not (isinstance(t, ast.Subscript) and isinstance(t.value, ast.Name) and
                t.value.id == 'pool'):
            continue
        nid = cfg.node_of(st).id
        flagged = [tr for _, tx, tr in cfg.facts(nid) if 'vectorized' in tx]
        if not flagged:
            continue
        v = st.value
        same = isinstance(v, ast.Call) and (dotted(v.func) or '').endswith('NautilusPool') and \
            v.args and unparse(v.args[0]) == unparse(t)
        n += 1
        ctx.ob(rid + 'p', 'Sampler.__init__:pool-entry-independent-of-vectorized@%s' % (
            'vectorized' if flagged[0] else 'scalar'), same, init.where(st),
            'under the vectorized test the entry is replaced by a pool of its own size' if same
            else '`%s` under a test of `vectorized`: a plain integer pool is one entry that '
            'serves as likelihood AND sampler pool, so the vectorised run loses (or resizes) the '
            'pool that builds and samples the bounds while the scalar run keeps it - same seed, '
            'different result' % unparse(st)[:50])
    if n == 0:
        ctx.note('F2p: no pool entry is assigned under a test of vectorized')
    return n


def rule_F2(ctx, rid='F2'):
    ctx.rule(rid, 'observational independence: statements control-dependent on a test of '
             'verbose / self.filepath / self.vectorized / self.pool_l write no sampler or bound '
             'state and draw no random numbers, except through the per-flag allow-list '
             '(print_status; write / write_shell_update; pool map), and the flags flow nowhere '
             'else')
    prog = ctx.program
    res = resolver(prog)
    S = prog.cls('Sampler')
    run = prog.func('Sampler.run')
    stepping = [prog.functions[q] for q in res.reachable_funcs(run)
                if prog.functions[q].cls is S]
    stepping += [S.methods[a] for a in ACCESSORS if a in S.methods and
                 S.methods[a] not in stepping]
    n_tests = 0
    for flag, allow in FLAG_ALLOW.items():
        for f in stepping:
            cfg = cfg_of(f)
            tests = [t for t in cfg.nodes if t.kind == 'test' and _mentions(t.expr, flag)]
            for t in tests:
                n_tests += 1
                dep = [n for n in cfg.nodes if n.kind in ('stmt', 'test', 'for', 'with') and
                       any(tt == t.id for tt, _ in cfg.guards(n.id))]
                problems = []
                for n in dep:
                    problems += _flag_effects(prog, res, f, n, allow)
                # effects that both branches perform identically are not dependent on the flag:
                # approximate by ignoring assignments to the locals `args` / `result`
                key = '%s:%s@%s' % (f.qualname, flag, _test_key(t))
                ctx.ob(rid, key, not problems, f.where(t.ast),
                       'the %d statements that depend on `%s` have no effect on sampler state '
                       'or the generator' % (len(dep), unparse(t.expr)) if not problems else
                       'behaviour depends on %s: %s' % (flag, problems[:4]))
            # other uses of the flag (the allow-listed sinks may store the flag in the file)
            for n in (walk_no_nested(f.node) if f.qualname not in (
                    'Sampler.write', 'Sampler.write_shell_update') else ()):
                bad = None
                if flag == 'verbose' and isinstance(n, ast.Name) and n.id == 'verbose' and \
                        isinstance(n.ctx, ast.Load):
                    bad = n
                elif flag != 'verbose' and isinstance(n, ast.Attribute) and \
                        dotted(n) == flag and isinstance(n.ctx, ast.Load):
                    bad = n
                if bad is None:
                    continue
                if not _benign_use(f, cfg, bad, flag, prog):
                    ctx.ob(rid, '%s:%s-flows-into-data' % (f.qualname, flag), False,
                           f.where(bad), '`%s` is used outside a branch test / pass-through '
                           'argument: the result may depend on it' % flag)
    # the allow-listed sinks must themselves be pure w.r.t. in-memory state
    for q in ('Sampler.print_status', 'Sampler.write', 'Sampler.write_shell_update'):
        from .effects import purity as _p
        _p(ctx, prog.func(q), rid, allow_param_guarded=False, label='sink:' + q)
    ctx.require(n_tests >= 10, 'F2 found only %d flag tests' % n_tests)
    return n_tests


def _test_key(t):
    import re
    return re.sub(r'[^A-Za-z0-9_]+', '_', unparse(t.expr))[:40] + '#L' + ''


def _flag_effects(prog, res, f, n, allow):
    """State effects of CFG node n (direct and through calls not on the allow-list)."""
    out = []
    a = n.ast if n.kind == 'stmt' else None
    if a is None:
        return out
    for sub in walk_no_nested(a):
        tg = []
        if isinstance(sub, ast.Assign):
            tg = sub.targets
        elif isinstance(sub, ast.AugAssign):
            tg = [sub.target]
        for t in tg:
            ra = root_attr(t, f.self_name) if f.self_name else None
            if ra:
                # a property setter or plain state write
                out.append('line %d writes self.%s' % (sub.lineno, ra[0]))
        if isinstance(sub, ast.Call):
            callees, status = res.resolve_call(f, sub)
            d = dotted(sub.func) or ''
            if isinstance(sub.func, ast.Attribute) and sub.func.attr in DRAWS and \
                    d.split('.')[-2:-1] == ['rng']:
                out.append('line %d draws %s' % (sub.lineno, d))
            if isinstance(sub.func, ast.Attribute) and sub.func.attr in MUTATORS:
                ra = root_attr(sub.func.value, f.self_name) if f.self_name else None
                if ra:
                    out.append('line %d mutates self.%s' % (sub.lineno, ra[0]))
            for c in callees:
                if c.qualname in allow:
                    continue
                t = res.trans(c)
                w = [(cc, aa) for cc, aa, k in t.writes if cc != '<local>']
                if w or t.draws:
                    out.append('line %d calls %s which %s' % (
                        sub.lineno, c.qualname, 'writes %s' % sorted(set(w))[:3] if w else
                        'draws random numbers'))
    return out


def _benign_use(f, cfg, node, flag, prog):
    """A use of the flag that cannot influence results: part of a branch test, or passed
    through as the same-named argument / to an allow-listed sink."""
    # climb to the statement
    par = {}
    for n in ast.walk(f.node):
        for c in ast.iter_child_nodes(n):
            par[id(c)] = n
    p = par.get(id(node))
    child = node
    while p is not None:
        if isinstance(p, (ast.If, ast.While)) and child is p.test:
            return True
        if isinstance(p, ast.IfExp) and child is p.test:
            return False
        if isinstance(p, ast.keyword) and p.arg == 'verbose' and flag == 'verbose':
            return True
        if isinstance(p, ast.Call):
            d = dotted(p.func) or ''
            if flag == 'self.filepath' and d in ('self.write', 'self.write_shell_update'):
                return True
            if flag == 'self.pool_l' and d == 'self.pool_l.map':
                return True
            if flag == 'self.pool_l' and child is p.func:
                return True
        if isinstance(p, ast.Attribute) and flag == 'self.pool_l' and p.attr in ('map', 'size'):
            child = p
            p = par.get(id(p))
            continue
        if isinstance(p, (ast.BoolOp, ast.UnaryOp, ast.Compare)):
            child = p
            p = par.get(id(p))
            continue
        if isinstance(p, ast.stmt):
            return False
        child = p
        p = par.get(id(p))
    return False


# ---------------------------------------------------------------------------
# F4 nondeterminism sources
# ---------------------------------------------------------------------------

NONDET_CALLS = {'os.urandom', 'uuid.uuid4', 'uuid.uuid1', 'secrets.token_bytes', 'id', 'hash',
                'os.getpid', 'random.random', 'random.seed', 'random.shuffle', 'random.choice',
                'random.randint', 'random.uniform', 'random.sample'}
ESTIMATORS = {'MLPRegressor', 'GaussianMixture', 'KMeans', 'MLPClassifier'}


def nondet_sources(func):
    """-> [(node, kind, ok, text)] for one function."""
    out = []
    cfg = None
    for n in walk_no_nested(func.node):
        if not isinstance(n, ast.Call):
            continue
        cn = dotted(n.func) or ''
        if cn in ('np.random.default_rng', 'numpy.random.default_rng', 'default_rng'):
            seeded = bool(n.args or n.keywords)
            if seeded:
                out.append((n, 'seeded-generator', True, 'generator seeded with `%s`'
                            % unparse((n.args or [n.keywords[0].value])[0])))
            else:
                cfg = cfg or cfg_of(func)
                ok = False
                if cfg.has(n):
                    for e, tx, truth in cfg.facts(cfg.node_of(n).id):
                        if truth is True and isinstance(e, ast.Compare) and \
                                isinstance(e.ops[0], ast.Is) and \
                                isinstance(e.comparators[0], ast.Constant) and \
                                e.comparators[0].value is None and \
                                isinstance(e.left, ast.Name) and 'rng' in e.left.id:
                            ok = True
                out.append((n, 'unseeded-generator', ok,
                            'fresh unseeded generator only when the caller passed rng=None'
                            if ok else 'fresh unseeded generator created unconditionally: '
                            'results are not reproducible from the sampler seed'))
        elif cn.startswith(('np.random.', 'numpy.random.')) and cn.split('.')[-1] in DRAWS | {
                'seed', 'rand', 'randn', 'randint', 'random_sample'}:
            out.append((n, 'legacy-global-rng', False, 'legacy global numpy RNG `%s` bypasses '
                        'the seeded generator' % cn))
        elif isinstance(n.func, ast.Attribute) and n.func.attr == 'spawn' and \
                not isinstance(n.func.value, ast.Call):
            d = dotted(n.func.value) or ''
            if d.split('.')[-1] in ('rng', 'bit_generator', 'seed_seq', '_seed_seq') or \
                    'rng' in d.split('.'):
                out.append((n, 'spawn-from-kept-generator', False,
                            '`%s.spawn(..)` derives the children from the spawn counter of the '
                            'generator\'s seed sequence, which is not part of the bit-generator '
                            'state that the checkpoint stores: a resumed sampler starts again at '
                            'child 0 and repeats proposal streams it has already used (points '
                            'evaluated and stored twice); derive children from a value DRAWN from '
                            'the generator instead' % d))
        elif cn in NONDET_CALLS:
            out.append((n, 'nondeterministic-call', False, '`%s` is not a function of the seed'
                        % cn))
        elif cn.split('.')[-1] in ESTIMATORS:
            rs = kwarg(n, 'random_state')
            star = [k for k in n.keywords if k.arg is None]
            fitted = _is_fitted(func, n)
            if not fitted:
                out.append((n, 'estimator-container', True, 'unfitted %s used as a container'
                            % cn))
            else:
                ok = rs is not None
                out.append((n, 'estimator-seed', ok, '%s fitted with random_state=%s' % (
                    cn, unparse(rs) if rs is not None else 'None (unseeded)')))
        elif cn in ('time', 'time.time', 'time.monotonic', 'time.perf_counter'):
            out.append((n, 'clock', _clock_ok(func, n), 'clock value flows only into a timeout '
                        'comparison' if _clock_ok(func, n) else
                        'clock value flows into data'))
    # iteration over sets
    for n in walk_no_nested(func.node):
        it = None
        if isinstance(n, ast.For):
            it = n.iter
        elif isinstance(n, ast.comprehension):
            it = n.iter
        if it is not None and (isinstance(it, ast.Set) or (
                isinstance(it, ast.Call) and dotted(it.func) in ('set', 'frozenset'))):
            out.append((it, 'set-iteration', False, 'iteration over a set has no defined order'))
    return out


def _is_fitted(func, call):
    """Estimator constructor whose result is fitted (`.fit(` applied to it)."""
    par = {}
    for n in ast.walk(func.node):
        for c in ast.iter_child_nodes(n):
            par[id(c)] = n
    p = par.get(id(call))
    if isinstance(p, ast.Attribute) and p.attr == 'fit':
        return True
    if isinstance(p, ast.Assign) and isinstance(p.targets[0], ast.Name):
        name = p.targets[0].id
        for n in walk_no_nested(func.node):
            if isinstance(n, ast.Call) and isinstance(n.func, ast.Attribute) and \
                    n.func.attr in ('fit', 'fit_predict', 'partial_fit') and \
                    isinstance(n.func.value, ast.Name) and n.func.value.id == name:
                return True
    return False


def _clock_ok(func, call):
    par = {}
    for n in ast.walk(func.node):
        for c in ast.iter_child_nodes(n):
            par[id(c)] = n
    p = par.get(id(call))
    # t_start = time()
    if isinstance(p, ast.Assign) and isinstance(p.targets[0], ast.Name):
        name = p.targets[0].id
        for n in walk_no_nested(func.node):
            if isinstance(n, ast.Name) and n.id == name and isinstance(n.ctx, ast.Load):
                if not _in_compare_test(par, n):
                    return False
        return True
    return _in_compare_test(par, call)


def _in_compare_test(par, node):
    child = node
    p = par.get(id(node))
    seen_cmp = False
    while p is not None and not isinstance(p, ast.stmt):
        if isinstance(p, ast.Compare):
            seen_cmp = True
        child = p
        p = par.get(id(p))
    return seen_cmp and isinstance(p, (ast.While, ast.If)) and child is p.test


def rule_F4(ctx, rid='F4'):
    ctx.rule(rid, 'nondeterminism sources: an unseeded default_rng() only under `rng is None`; '
             'no legacy global RNG, clock-, id-, hash- or set-order-dependent value; every '
             'fitted sklearn estimator receives a random_state; a user-supplied random_state is '
             'removed; time() flows only into the timeout comparison')
    prog = ctx.program
    n_unseeded = 0
    for f in prog.functions.values():
        for node, kind, ok, text in nondet_sources(f):
            if kind == 'unseeded-generator':
                n_unseeded += 1
            ctx.ob(rid, '%s:%s' % (f.qualname, kind), ok, f.where(node), text)
    ctx.require(n_unseeded >= 11, 'only %d unseeded-generator fallbacks found (floor 11)'
                % n_unseeded)
    # estimator seeds are rng-derived or deterministic
    tn = prog.func('neural.train_network')
    rs_param = 'random_state' in tn.params
    ctx.ob(rid, 'neural.train_network:seed-parameter', rs_param, tn.where(),
           'network seed is an explicit parameter of train_network')
    tr = prog.func('NeuralNetworkEmulator.train')
    # the seeds handed to train_network are range(n_networks): deterministic per index
    ok = False
    for n in walk_no_nested(tr.node):
        if isinstance(n, ast.Call) and (dotted(n.func) or '').endswith('map') and \
                len(n.args) == 2 and isinstance(n.args[1], ast.Call) and \
                dotted(n.args[1].func) == 'range':
            ok = True
    ctx.ob(rid, 'NeuralNetworkEmulator.train:seeds-per-index', ok, tr.where(),
           'network i is trained with seed i (range over the network index)' if ok else
           'network seeds are not the deterministic per-index range')
    # a user random_state is removed before use
    dels = [n for n in walk_no_nested(tr.node) if isinstance(n, ast.Delete) and
            any('random_state' in unparse(t) for t in n.targets)] + \
           [n for n in walk_no_nested(tr.node) if isinstance(n, ast.Call) and
            isinstance(n.func, ast.Attribute) and n.func.attr == 'pop' and n.args and
            const_value(n.args[0]) == 'random_state']
    ctx.ob(rid, 'NeuralNetworkEmulator.train:user-random_state-removed', bool(dels), tr.where(),
           'a user-supplied random_state is removed from the network arguments' if dels else
           'a user-supplied random_state would collide with / override the per-index seed')
    # fixture
    bad, good = _fixture_funcs('F4_bad.py'), _fixture_funcs('F4_good.py')
    nb = [x for fn in bad for x in nondet_sources(fn) if not x[2]]
    ng = [x for fn in good for x in nondet_sources(fn) if not x[2]]
    if len(nb) < 3 or ng:
        raise AnalysisError('F4 fixture self-check failed (bad fired %d, good fired %d)'
                            % (len(nb), len(ng)))
    ctx.ob(rid, 'fixture:F4', True, 'fixtures/F4_bad.py', 'rule fires on the bad fixture (%d '
           'sites) and is silent on the good one' % len(nb))


class _FakeFunc:
    """Minimal FuncInfo stand-in for fixture functions."""

    def __init__(self, node):
        self.node = node
        self.name = node.name
        self.qualname = 'fixture.' + node.name
        self.params = [a.arg for a in node.args.args]
        self.self_name = None
        self.cls = None

    def where(self, n=None):
        return 'fixture:%d' % getattr(n or self.node, 'lineno', 0)


def _fixture_funcs(name):
    path = os.path.join(VERIF, 'fixtures', name)
    with open(path) as fh:
        tree = ast.parse(fh.read())
    return [_FakeFunc(n) for n in ast.walk(tree) if isinstance(n, ast.FunctionDef)]


# ---------------------------------------------------------------------------
# F8 one formula for every batch shape
# ---------------------------------------------------------------------------

SHAPE_PROBES = {'np.ndim', 'np.isscalar', 'np.shape', 'np.size', 'len', 'np.iterable'}
SHAPE_ATTRS = {'ndim', 'shape', 'size'}


def shape_dependent_branches(func):
    """Branch tests of `func` that probe the dimensionality / scalar-ness of a parameter (or of
    an array made from one) and whose two branches both go on to compute a result: the value
    returned for one point can then differ from the row of a batch.  Tests one of whose
    branches rejects the input (raise) are validation and are not reported."""
    from .cfg import cfg_of
    cfg = cfg_of(func)
    if not any(isinstance(r, ast.Return) and r.value is not None and not (
            isinstance(r.value, ast.Constant) and r.value.value is None)
            for r in walk_no_nested(func.node)):
        return []       # no result: nothing a shape test could select between
    data = {p for p in func.params if p != func.self_name}
    for st in walk_no_nested(func.node):      # aliases: x = np.asarray(param)
        if isinstance(st, ast.Assign) and len(st.targets) == 1 and \
                isinstance(st.targets[0], ast.Name) and isinstance(st.value, ast.Call) and \
                dotted(st.value.func) in ('np.asarray', 'np.array', 'np.atleast_1d',
                                          'np.atleast_2d', 'np.copy') and st.value.args and \
                isinstance(st.value.args[0], ast.Name) and st.value.args[0].id in data:
            data.add(st.targets[0].id)
    out = []
    for t in cfg.nodes:
        if t.kind != 'test' or t.expr is None:
            continue
        probe = None
        for x in ast.walk(t.expr):
            if isinstance(x, ast.Call) and dotted(x.func) in SHAPE_PROBES and x.args and \
                    isinstance(x.args[0], ast.Name) and x.args[0].id in data:
                probe = x
            if isinstance(x, ast.Attribute) and x.attr in SHAPE_ATTRS and \
                    isinstance(x.value, ast.Name) and x.value.id in data:
                probe = x
            if isinstance(x, ast.Call) and dotted(x.func) == 'isinstance' and len(x.args) == 2 \
                    and isinstance(x.args[0], ast.Name) and x.args[0].id in data and any(
                        (dotted(y) or '') in ('float', 'int', 'np.ndarray', 'numbers.Number',
                                              'np.floating', 'list', 'tuple')
                        for y in ast.walk(x.args[1])):
                probe = x
        if probe is None:
            continue
        # validation: some branch of the test cannot reach the normal exit
        succ = [s for s, lab in t.succ if lab in (True, False)]
        if len(succ) < 2:
            continue
        if any(cfg.exit.id not in (cfg.reach(s_) | {s_}) for s_ in succ):
            continue
        out.append((t, probe))
    return out


def rule_F8(ctx, rid='F8'):
    ctx.rule(rid, 'one formula for every batch shape: on the prior-transform path (classes of '
             'nautilus.prior and the phase shift) no branch that probes the dimensionality or '
             'scalar-ness of the points selects between two computations -- a scalar and a '
             'vectorised likelihood must see bit-identical coordinates')
    prog = ctx.program
    scope = [f for f in prog.functions.values()
             if f.module.modname.endswith(('.prior', '.periodic')) and f.cls is not None]
    ctx.require(len(scope) >= 6, 'only %d functions on the transform path (floor 6)' % len(scope))
    for f in sorted(scope, key=lambda x: x.qualname):
        hits = shape_dependent_branches(f)
        ctx.ob(rid, '%s:shape-independent' % f.qualname, not hits,
               f.where(hits[0][0].ast) if hits else f.where(),
               'no branch on the shape of the input selects the arithmetic' if not hits else
               'the branch on `%s` makes the result for a single point come from a different '
               'computation than the row of a batch: scalar and vectorised evaluation of the '
               'same point can differ in the last bits' % unparse(hits[0][1])[:40])
    bad, good = _fixture_funcs('F8_bad.py'), _fixture_funcs('F8_good.py')
    for fn in bad + good:
        fn.self_name = 'self'
    nb = [h for fn in bad for h in shape_dependent_branches(fn)]
    ng = [h for fn in good for h in shape_dependent_branches(fn)]
    if len(nb) < 2 or ng:
        raise AnalysisError('F8 fixture self-check failed (bad fired %d, good fired %d)'
                            % (len(nb), len(ng)))
    ctx.ob(rid, 'fixture:F8', True, 'fixtures/F8_bad.py', 'rule fires on the bad fixture (%d '
           'branches) and is silent on the good one' % len(nb))


# ---------------------------------------------------------------------------
# G1 no state shared between sampler instances or hidden in the process
# ---------------------------------------------------------------------------

MUTATING_METHODS = {'append', 'extend', 'insert', 'pop', 'remove', 'clear', 'update',
                    'setdefault', 'popitem', 'sort', 'reverse', 'add', 'discard'}
# writes of module-level state that are part of the design (confirmed by reading)
G1_ALLOWED_GLOBALS = {
    ('pool.initialize_worker', 'LIKELIHOOD'): 'per-process copy of the likelihood, set once by '
                                              'the pool initializer of each worker',
}


def _mutable_default(d):
    if isinstance(d, (ast.Dict, ast.List, ast.Set)):
        return True
    return isinstance(d, ast.Call) and isinstance(d.func, ast.Name) and \
        d.func.id in ('dict', 'list', 'set', 'bytearray') and not d.args and not d.keywords


def shared_state_faults(tree_or_func_nodes, module_tree=None):
    """[(kind, ast node, text)] for: in-place mutation of a parameter that may still be its
    mutable default object; `global` writes; class-level mutable attributes."""
    from .cfg import CFG
    out = []
    for fn in tree_or_func_nodes:
        a = fn.args
        allp = a.posonlyargs + a.args
        defaults = [None] * (len(allp) - len(a.defaults)) + list(a.defaults)
        shared = {p.arg for p, d in zip(allp, defaults) if d is not None and _mutable_default(d)}
        shared |= {p.arg for p, d in zip(a.kwonlyargs, a.kw_defaults)
                   if d is not None and _mutable_default(d)}
        if shared:
            cfg = CFG(fn)
            for n in cfg.nodes:
                if n.kind != 'stmt' or n.ast is None:
                    continue
                hits = []
                st = n.ast
                tgts = []
                if isinstance(st, ast.Assign):
                    tgts = st.targets
                elif isinstance(st, ast.AugAssign):
                    tgts = [st.target]
                elif isinstance(st, ast.Delete):
                    tgts = st.targets
                for t in tgts:
                    b = t
                    sub = False
                    while isinstance(b, ast.Subscript):
                        b, sub = b.value, True
                    if sub and isinstance(b, ast.Name) and b.id in shared:
                        hits.append(b.id)
                for c in ast.walk(st):
                    if isinstance(c, ast.Call) and isinstance(c.func, ast.Attribute) and \
                            c.func.attr in MUTATING_METHODS and \
                            isinstance(c.func.value, ast.Name) and c.func.value.id in shared:
                        hits.append(c.func.value.id)
                for name in hits:
                    if cfg.entry.id in cfg.defs_at(n.id, name):
                        out.append(('default', st, 'parameter %r has a mutable default and is '
                                    'modified in place by `%s` while it can still be that '
                                    'default object: the change leaks into every later call'
                                    % (name, unparse(st)[:50])))
        for g in ast.walk(fn):
            if isinstance(g, ast.Global):
                for name in g.names:
                    out.append(('global', g, name))
    if module_tree is not None:
        for c in ast.walk(module_tree):
            if isinstance(c, ast.ClassDef):
                for st in c.body:
                    if isinstance(st, ast.Assign) and (
                            _mutable_default(st.value) or (
                                isinstance(st.value, ast.Call) and
                                (dotted(st.value.func) or '').startswith(('np.zeros', 'np.array',
                                                                          'np.empty')))):
                        out.append(('class', st, 'class %s has the class-level mutable attribute '
                                    '`%s`: it is shared by all instances' % (
                                        c.name, unparse(st)[:50])))
    return out


def rule_G1(ctx, rid='G1'):
    ctx.rule(rid, 'instance isolation: no function modifies in place a parameter that may still '
             'be its mutable default object; module-level state is written only where the '
             'frozen table allows; no class-level mutable attributes -- results cannot depend on '
             'what other samplers did earlier in the same process')
    prog = ctx.program
    n_funcs = 0
    for f in sorted(prog.functions.values(), key=lambda x: x.qualname):
        n_funcs += 1
        faults = shared_state_faults([f.node])
        bad = []
        for kind, node, text in faults:
            if kind == 'global':
                if (f.qualname, text) in G1_ALLOWED_GLOBALS:
                    continue
                bad.append((node, 'writes the module-level name %r: state that outlives and is '
                            'shared between samplers' % text))
            else:
                bad.append((node, text))
        if faults or any(_mutable_default(d) for d in f.node.args.defaults +
                         [k for k in f.node.args.kw_defaults if k is not None]):
            ctx.ob(rid, '%s:no-shared-state' % f.qualname, not bad,
                   f.where(bad[0][0]) if bad else f.where(),
                   'parameters with mutable defaults are not modified in place; no unlisted '
                   'global write' if not bad else bad[0][1])
    # module-level mutable objects (dict / list / set bound at the top of a module) are
    # process-wide state: no function may modify one in place, directly or through a local
    # name bound to it
    for m in prog.modules.values():
        shared = {}
        for st in m.tree.body:
            if isinstance(st, ast.Assign) and len(st.targets) == 1 and \
                    isinstance(st.targets[0], ast.Name) and (
                        isinstance(st.value, (ast.Dict, ast.List, ast.Set)) or (
                            isinstance(st.value, ast.Call) and
                            isinstance(st.value.func, ast.Name) and
                            st.value.func.id in ('dict', 'list', 'set'))):
                shared[st.targets[0].id] = st
        if not shared:
            continue
        hits = []
        for f in prog.functions.values():
            if f.module is not m:
                continue
            alias = dict((k, k) for k in shared)
            for st in walk_no_nested(f.node):
                if isinstance(st, ast.Assign) and len(st.targets) == 1 and \
                        isinstance(st.targets[0], ast.Name) and \
                        isinstance(st.value, ast.Name) and st.value.id in alias:
                    alias[st.targets[0].id] = alias[st.value.id]
            rebound = {st.targets[0].id for st in walk_no_nested(f.node)
                       if isinstance(st, ast.Assign) and len(st.targets) == 1 and
                       isinstance(st.targets[0], ast.Name) and
                       not (isinstance(st.value, ast.Name) and st.value.id in alias)}
            for st in walk_no_nested(f.node):
                tg = []
                if isinstance(st, ast.Assign):
                    tg = st.targets
                elif isinstance(st, ast.AugAssign):
                    tg = [st.target]
                elif isinstance(st, ast.Delete):
                    tg = st.targets
                for t in tg:
                    b, sub = t, False
                    while isinstance(b, ast.Subscript):
                        b, sub = b.value, True
                    if sub and isinstance(b, ast.Name) and b.id in alias and \
                            b.id not in rebound - set(shared):
                        hits.append((f, st, alias[b.id]))
                if isinstance(st, ast.Expr) and isinstance(st.value, ast.Call) and \
                        isinstance(st.value.func, ast.Attribute) and \
                        st.value.func.attr in MUTATING_METHODS and \
                        isinstance(st.value.func.value, ast.Name) and \
                        st.value.func.value.id in alias and \
                        st.value.func.value.id not in rebound - set(shared):
                    hits.append((f, st, alias[st.value.func.value.id]))
        for name in sorted(shared):
            bad = [h for h in hits if h[2] == name]
            ctx.ob(rid, '%s:%s-not-modified' % (m.modname, name), not bad,
                   bad[0][0].where(bad[0][1]) if bad else '%s:%d' % (m.relpath,
                                                                      shared[name].lineno),
                   'module-level %s is never modified in place' % name if not bad else
                   '`%s` in %s modifies the module-level object %s in place: what one sampler '
                   'passes leaks into every later one in the same process'
                   % (unparse(bad[0][1])[:50], bad[0][0].qualname, name))
    for m in prog.modules.values():
        faults = [x for x in shared_state_faults([], m.tree) if x[0] == 'class']
        ctx.ob(rid, '%s:no-class-level-mutable' % m.modname, not faults,
               '%s:%d' % (m.relpath, faults[0][1].lineno) if faults else m.relpath + ':0',
               'no class-level mutable attribute' if not faults else faults[0][2])
    # fixtures
    import os
    def _fx(name):
        with open(os.path.join(VERIF, 'fixtures', name)) as fh:
            tree = ast.parse(fh.read())
        fns = [n for n in ast.walk(tree) if isinstance(n, ast.FunctionDef)]
        return shared_state_faults(fns, tree)
    nb, ng = _fx('G1_bad.py'), _fx('G1_good.py')
    kinds = {k for k, _, _ in nb}
    if kinds != {'default', 'global', 'class'} or ng:
        raise AnalysisError('G1 fixture self-check failed (bad %s, good %d)'
                            % (sorted(kinds), len(ng)))
    ctx.ob(rid, 'fixture:G1', True, 'fixtures/G1_bad.py', 'rule fires on the bad fixture (%s) '
           'and is silent on the good one' % ', '.join(sorted(kinds)))
    return n_funcs


# ---------------------------------------------------------------------------
# F9 arguments are not modified in place
# ---------------------------------------------------------------------------

ALIAS_CALLS = {'np.asarray', 'np.asanyarray', 'np.atleast_1d', 'np.atleast_2d',
               'np.ascontiguousarray', 'np.ravel', 'np.reshape', 'np.squeeze', 'np.transpose',
               'np.swapaxes', 'np.broadcast_to', 'np.expand_dims'}
ALIAS_METHODS = {'reshape', 'ravel', 'view', 'squeeze', 'transpose', 'swapaxes'}
INPLACE_METHODS = {'sort', 'fill', 'resize', 'put', 'itemset', 'partition', 'byteswap'}
INPLACE_FUNCS = {'np.put', 'np.copyto', 'np.place', 'np.putmask', 'np.fill_diagonal'}


def argument_mutations(func):
    """[(ast node, parameter, text)]: statements of `func` that modify in place an array that
    is (a view of) one of its parameters.  HDF5 groups (subscripts by string keys, `.attrs`)
    are not arrays and are exempt."""
    from .cfg import CFG
    fn = func.node
    cfg = CFG(fn) if not hasattr(func, 'module') else cfg_of_(func)
    params = [p for p in func.params if p != func.self_name and p not in ('cls',)]
    if not params:
        return []
    memo = {}

    def alias_of(e, nid, depth=0):
        """Parameter that expression `e` (evaluated at node nid) may alias, else None."""
        if depth > 6:
            return None
        if isinstance(e, ast.Name):
            key = (e.id, nid)
            if key in memo:
                return memo[key]
            memo[key] = None
            res = None
            for d in cfg.defs_at(nid, e.id):
                if d == cfg.entry.id:
                    if e.id in params:
                        res = e.id
                    continue
                dn = cfg.nodes[d]
                if dn.kind == 'stmt' and isinstance(dn.ast, ast.Assign) and \
                        len(dn.ast.targets) == 1 and isinstance(dn.ast.targets[0], ast.Name):
                    r = alias_of(dn.ast.value, d, depth + 1)
                    if r:
                        res = r
            memo[key] = res
            return res
        if isinstance(e, ast.Call):
            d = dotted(e.func) or ''
            if d in ALIAS_CALLS and e.args:
                if any(k.arg == 'copy' and isinstance(k.value, ast.Constant) and
                       k.value.value is True for k in e.keywords):
                    return None
                return alias_of(e.args[0], nid, depth + 1)
            if isinstance(e.func, ast.Attribute) and e.func.attr in ALIAS_METHODS:
                return alias_of(e.func.value, nid, depth + 1)
            if isinstance(e.func, ast.Attribute) and e.func.attr == 'astype' and any(
                    k.arg == 'copy' and isinstance(k.value, ast.Constant) and
                    k.value.value is False for k in e.keywords):
                return alias_of(e.func.value, nid, depth + 1)
            return None
        if isinstance(e, ast.Attribute) and e.attr == 'T':
            return alias_of(e.value, nid, depth + 1)
        if isinstance(e, ast.Subscript):
            sl = e.slice
            parts = sl.elts if isinstance(sl, ast.Tuple) else [sl]
            basic = all(isinstance(x, ast.Slice) or
                        (isinstance(x, ast.Constant) and (x.value is Ellipsis or x.value is None
                                                          or isinstance(x.value, int))) or
                        (isinstance(x, ast.Attribute) and dotted(x) == 'np.newaxis')
                        for x in parts)
            if basic:
                return alias_of(e.value, nid, depth + 1)
        return None

    def string_keyed(t):
        while isinstance(t, (ast.Subscript, ast.Attribute)):
            if isinstance(t, ast.Attribute):
                if t.attr == 'attrs':
                    return True
                t = t.value
                continue
            sl = t.slice
            if isinstance(sl, (ast.JoinedStr,)) or (isinstance(sl, ast.Constant) and
                                                    isinstance(sl.value, str)) or \
                    (isinstance(sl, ast.Call) and isinstance(sl.func, ast.Attribute) and
                     sl.func.attr == 'format'):
                return True
            t = t.value
        return False

    out = []
    for n in cfg.nodes:
        if n.kind != 'stmt' or n.ast is None:
            continue
        st = n.ast
        tg = []
        if isinstance(st, ast.Assign):
            tg = [t for t in st.targets if isinstance(t, ast.Subscript)]
        elif isinstance(st, ast.AugAssign):
            tg = [st.target]
        for t in tg:
            if string_keyed(t):
                continue
            base = t
            while isinstance(base, ast.Subscript):
                base = base.value
            if isinstance(base, (ast.Name, ast.Call, ast.Attribute)) and not (
                    isinstance(base, ast.Attribute) and isinstance(base.value, ast.Name) and
                    base.value.id == func.self_name):
                p = alias_of(base, n.id)
                if p and not (isinstance(t, ast.Name) and isinstance(st, ast.Assign)):
                    out.append((st, p, '`%s` writes into %s' % (
                        unparse(st)[:50], 'the argument %r itself' % p if
                        isinstance(base, ast.Name) and base.id == p else
                        'a view of the argument %r' % p)))
        for c in ast.walk(st):
            if isinstance(c, ast.Call):
                d = dotted(c.func) or ''
                if isinstance(c.func, ast.Attribute) and c.func.attr in INPLACE_METHODS and \
                        not c.args or (isinstance(c.func, ast.Attribute) and
                                       c.func.attr in ('fill', 'put', 'itemset', 'resize')):
                    if isinstance(c.func, ast.Attribute):
                        p = alias_of(c.func.value, n.id)
                        if p and c.func.attr in INPLACE_METHODS:
                            out.append((st, p, '`%s` changes the argument %r in place' % (
                                unparse(c)[:40], p)))
                if (d in INPLACE_FUNCS or d.endswith('.shuffle')) and c.args:
                    p = alias_of(c.args[0], n.id)
                    if p:
                        out.append((st, p, '`%s` changes the argument %r in place' % (
                            unparse(c)[:40], p)))
                for k in c.keywords:
                    if k.arg == 'out':
                        p = alias_of(k.value, n.id)
                        if p:
                            out.append((st, p, '`%s` stores its result into the argument %r'
                                        % (unparse(c)[:40], p)))
    return out


def cfg_of_(func):
    from .cfg import cfg_of
    return cfg_of(func)


# in-place writes to an argument that are part of the design (confirmed by reading)
F9_ALLOWED = {
    ('Sampler.sample_shell', 'shell_t'): 'consumed transfer candidates are marked (-1) in the '
                                         'caller\'s array on purpose: rule A5 relies on it',
}


def rule_F9(ctx, rid='F9', classes=None):
    ctx.rule(rid, 'argument isolation: no function of the package modifies in place an array '
             'that is (a view of) one of its parameters -- stored points, construction points '
             'and user arrays handed to transform / contains / compute stay what they were')
    prog = ctx.program
    n = 0
    for f in sorted(prog.functions.values(), key=lambda x: x.qualname):
        if classes is not None and (f.cls is None or f.cls.name not in classes):
            continue
        if not [p for p in f.params if p != f.self_name]:
            continue
        muts = [m for m in argument_mutations(f) if (f.qualname, m[1]) not in F9_ALLOWED]
        n += 1
        ctx.ob(rid, '%s:arguments-untouched' % f.qualname, not muts,
               f.where(muts[0][0]) if muts else f.where(),
               'no parameter is modified in place' if not muts else
               muts[0][2] + ': the caller\'s array (e.g. stored or construction points) is '
               'changed behind its back')
    bad, good = _fixture_funcs('F9_bad.py'), _fixture_funcs('F9_good.py')
    for fn in bad + good:
        fn.self_name = 'self'
    nb = [m for fn in bad for m in argument_mutations(fn)]
    ng = [m for fn in good for m in argument_mutations(fn)]
    if len(nb) < 3 or ng:
        raise AnalysisError('F9 fixture self-check failed (bad fired %d, good fired %d: %s)'
                            % (len(nb), len(ng), [m[2] for m in ng]))
    ctx.ob(rid, 'fixture:F9', True, 'fixtures/F9_bad.py', 'rule fires on the bad fixture (%d '
           'sites) and is silent on the good one' % len(nb))
    return n


# ---------------------------------------------------------------------------
# G2 no replicated references to one mutable object
# ---------------------------------------------------------------------------

def aliased_replications(fn_node):
    """`[obj] * n` / `n * [obj]` where obj is a freshly built mutable object (a call, a list /
    dict / set display): all n slots refer to the SAME object."""
    out = []
    for x in walk_no_nested(fn_node):
        if isinstance(x, ast.BinOp) and isinstance(x.op, ast.Mult):
            for lst in (x.left, x.right):
                if isinstance(lst, (ast.List, ast.Tuple)) and lst.elts and any(
                        isinstance(e, (ast.Call, ast.List, ast.Dict, ast.Set, ast.ListComp,
                                       ast.DictComp)) and not (
                            isinstance(e, ast.Call) and dotted(e.func) in (
                                'int', 'float', 'str', 'bool', 'tuple', 'frozenset', 'len'))
                        for e in lst.elts):
                    out.append(x)
    return out


def rule_G2(ctx, rid='G2'):
    ctx.rule(rid, 'no aliased replication: the package never builds a list by multiplying a '
             'one-element list holding a freshly constructed mutable object ([obj()] * n makes '
             'n references to ONE object, so filling "each" of them fills the same one)')
    prog = ctx.program
    bad_all = []
    for f in sorted(prog.functions.values(), key=lambda x: x.qualname):
        bad = aliased_replications(f.node)
        for b in bad:
            bad_all.append((f, b))
    ctx.ob(rid, 'package:no-aliased-replication', not bad_all,
           bad_all[0][0].where(bad_all[0][1]) if bad_all else 'nautilus/:0',
           'no `[obj] * n` with a mutable element in %d functions' % len(prog.functions)
           if not bad_all else
           '`%s` in %s creates several references to one object: networks / rows restored or '
           'filled "one by one" all end up identical to the last one'
           % (unparse(bad_all[0][1])[:60], bad_all[0][0].qualname))
    nb = [b for fn in _fixture_funcs('G2_bad.py') for b in aliased_replications(fn.node)]
    ng = [b for fn in _fixture_funcs('G2_good.py') for b in aliased_replications(fn.node)]
    if len(nb) < 2 or ng:
        raise AnalysisError('G2 fixture self-check failed (bad %d, good %d)' % (len(nb), len(ng)))
    ctx.ob(rid, 'fixture:G2', True, 'fixtures/G2_bad.py', 'rule fires on the bad fixture (%d '
           'sites) and is silent on the good one' % len(nb))


# ---------------------------------------------------------------------------
# G3 an explicitly given option is stored as given
# ---------------------------------------------------------------------------

def rule_G3(ctx, rid='G3'):
    ctx.rule(rid, 'explicit options are kept: a constructor option whose default is None and '
             'that is stored in the attribute of the same name is stored unchanged whenever the '
             'caller supplied it -- only the `is None` branch may replace it (so results depend '
             'on the option as given, not on the pool size or other options)')
    f = ctx.program.func('Sampler.__init__')
    from .cfg import cfg_of
    cfg = cfg_of(f)
    a = f.node.args
    allp = a.posonlyargs + a.args
    defaults = [None] * (len(allp) - len(a.defaults)) + list(a.defaults)
    opt = [p.arg for p, d in zip(allp, defaults)
           if isinstance(d, ast.Constant) and d.value is None]
    n = 0
    for p in opt:
        stores = [nn for nn in cfg.nodes if nn.kind == 'stmt' and isinstance(nn.ast, ast.Assign)
                  and len(nn.ast.targets) == 1 and
                  dotted(nn.ast.targets[0]) == '%s.%s' % (f.self_name, p)]
        # only the stores of the constructor proper (not the resume block, which restores state)
        stores = [nn for nn in stores if any(isinstance(x, ast.Name) and x.id == p
                                             for x in ast.walk(nn.ast.value))]
        if not stores:
            continue
        for st in stores:
            bare = isinstance(st.ast.value, ast.Name) and st.ast.value.id == p
            rebinds_ok = True
            for d in cfg.defs_at(st.id, p):
                if d == cfg.entry.id:
                    continue
                if not cfg.has_fact(d, '%s is None' % p, True):
                    rebinds_ok = False
            ok = bare and rebinds_ok
            n += 1
            ctx.ob(rid, 'Sampler.__init__:kept-as-given(%s)' % p, ok, f.where(st.ast),
                   'an explicit %s is stored unchanged (only the None default is replaced)' % p
                   if ok else
                   '`%s` does not store an explicitly given %s unchanged: the value the caller '
                   'asked for is altered (e.g. rounded to the pool size), so the same arguments '
                   'and seed give different results under different pools'
                   % (unparse(st.ast)[:60], p))
    return n


# ---------------------------------------------------------------------------
# F10 the worker-side likelihood stub is only ever run by pool workers
# ---------------------------------------------------------------------------

def rule_F10(ctx, rid='F10'):
    ctx.rule(rid, 'worker stub: a function that reads a module global which only a pool '
             'initializer defines (likelihood_worker / LIKELIHOOD) can only work inside pool '
             'workers; wherever the sampler installs it as self.likelihood, every call of '
             'self.likelihood made in the parent process (directly or through the builtin map) '
             'sits on a branch whose conditions contradict those of the installation')
    from .cfg import cfg_of
    prog = ctx.program
    # functions that read a global only assigned under a `global` statement elsewhere
    worker_only = set()
    for m in prog.modules.values():
        declared = {}
        for f in m.functions.values():
            for g in ast.walk(f.node):
                if isinstance(g, ast.Global):
                    for nm in g.names:
                        declared.setdefault(nm, set()).add(f.name)
        top = {t.id for st in m.tree.body if isinstance(st, ast.Assign) for t in st.targets
               if isinstance(t, ast.Name)}
        for f in m.functions.values():
            for x in ast.walk(f.node):
                if isinstance(x, ast.Name) and isinstance(x.ctx, ast.Load) and \
                        x.id in declared and x.id not in top and f.name not in declared[x.id]:
                    worker_only.add(f.name)
    ctx.require(worker_only, 'no worker-only function found (expected pool.likelihood_worker)')
    S = prog.cls('Sampler')
    installs = []
    for f in S.methods.values():
        cfg = cfg_of(f)
        for nn in cfg.nodes:
            if nn.kind == 'stmt' and isinstance(nn.ast, ast.Assign) and \
                    dotted(nn.ast.targets[0]) == '%s.likelihood' % f.self_name and \
                    isinstance(nn.ast.value, ast.Name) and nn.ast.value.id in worker_only:
                installs.append((f, cfg, nn))
    n = 0
    if not installs:
        ctx.ob(rid, 'Sampler:worker-stub-not-installed', True, 'nautilus/sampler.py:0',
               'the sampler never replaces self.likelihood by a worker-only function')
        return 1

    def flag_facts(cfg, nid):
        out = {}
        for atom, tx, tr in cfg.facts(nid):
            t = tx.replace('self.', '')
            out[t] = tr
        return out
    # the installation implies a likelihood pool: it sits next to `pool[i] = NautilusPool(..)`
    inst_facts = []
    for f, cfg, nn in installs:
        ff = flag_facts(cfg, nn.id)
        ff['pool_l is None'] = False
        inst_facts.append(ff)
    for f in S.methods.values():
        cfg = cfg_of(f)
        for c in walk_no_nested(f.node):
            if not isinstance(c, ast.Call) or not cfg.has(c):
                continue
            direct = dotted(c.func) == '%s.likelihood' % f.self_name
            builtin_map = isinstance(c.func, ast.Name) and c.func.id == 'map' and c.args and \
                dotted(c.args[0]) == '%s.likelihood' % f.self_name
            if not (direct or builtin_map):
                continue
            cf = flag_facts(cfg, cfg.node_of(c).id)
            ok = all(any(k in cf and cf[k] != v for k, v in ff.items()) for ff in inst_facts)
            n += 1
            tag = ','.join(('' if v else 'not ') + k for k, v in sorted(cf.items())) or 'always'
            ctx.ob(rid, '%s:parent-call-excludes-stub(%s)' % (f.qualname, tag), ok,
                   f.where(c),
                   'this in-process call cannot meet the worker stub (branch conditions %s '
                   'contradict the installation)' % sorted(cf.items()) if ok else
                   '`%s` runs in the parent process on a branch (%s) that is compatible with the '
                   'branch on which self.likelihood was replaced by the worker-only `%s` (%s): '
                   'the stub reads a global that exists only in pool workers -> NameError'
                   % (unparse(c)[:40], sorted(cf.items()), sorted(worker_only)[0],
                      sorted(inst_facts[0].items())))
    return n


# ---------------------------------------------------------------------------
# F5 ordered map
# ---------------------------------------------------------------------------

UNORDERED = {'imap_unordered', 'as_completed', 'map_unordered', 'unordered', 'apply_async',
             'submit'}
ORDER_BREAKERS = {'sorted', 'reversed', 'set', 'frozenset', 'np.unique', 'np.sort', 'np.flip',
                  'np.random.permutation', 'dict.fromkeys', 'np.argsort', 'np.roll'}


def unordered_calls(fn_node):
    out = []
    for n in walk_no_nested(fn_node):
        if isinstance(n, ast.Call) and isinstance(n.func, ast.Attribute) and \
                n.func.attr in UNORDERED:
            out.append(n)
    return out


def order_breakers(fn_node, names):
    """Order-changing operations applied to the locals `names` (or iteration domains
    built from them)."""
    out = []
    for n in walk_no_nested(fn_node):
        if isinstance(n, ast.Call):
            cn = dotted(n.func) or ''
            if cn in ORDER_BREAKERS and any(isinstance(s, ast.Name) and s.id in names
                                            for a in n.args for s in ast.walk(a)):
                out.append((n, cn))
            if isinstance(n.func, ast.Attribute) and n.func.attr in ('sort', 'reverse') and \
                    isinstance(n.func.value, ast.Name) and n.func.value.id in names:
                out.append((n, '.' + n.func.attr))
            if isinstance(n.func, ast.Attribute) and n.func.attr == 'shuffle' and n.args and \
                    isinstance(n.args[0], ast.Name) and n.args[0].id in names:
                out.append((n, 'shuffle'))
        if isinstance(n, ast.Subscript) and isinstance(n.value, ast.Name) and \
                n.value.id in names and isinstance(n.slice, ast.Slice) and \
                n.slice.step is not None:
            out.append((n, 'strided/reversed slice'))
    return out


def rule_F5(ctx, rid='F5'):
    ctx.rule(rid, 'ordered map: NautilusPool.map and evaluate_likelihood use only '
             'order-preserving primitives (map, gather(map)), and between the argument list and '
             'the returned log_l / blobs nothing sorts, shuffles, reverses or re-keys')
    prog = ctx.program
    pm = prog.func('NautilusPool.map')
    ev = prog.func('Sampler.evaluate_likelihood')
    for f in (pm, ev, prog.func('NeuralNetworkEmulator.train'),
              prog.func('NautilusBound.sample')):
        u = unordered_calls(f.node)
        ctx.ob(rid, '%s:no-unordered-primitive' % f.qualname, not u, f.where(u[0]) if u else
               f.where(), 'uses no unordered pool primitive' if not u else
               'uses `%s`, which returns results in completion order' % unparse(u[0].func))
    # NautilusPool.map returns list(<x>.map(func, iterable)) / list(x.gather(x.map(...)))
    params = [p for p in pm.params if p != pm.self_name]
    rets = [n for n in walk_no_nested(pm.node) if isinstance(n, ast.Return)]
    ctx.require(rets and len(params) >= 2, 'NautilusPool.map lost its shape')
    for r in rets:
        e = r.value
        inner = e
        chain = []
        while isinstance(inner, ast.Call):
            chain.append(dotted(inner.func) or unparse(inner.func))
            if (dotted(inner.func) or '').endswith('.map') and len(inner.args) >= 2:
                break
            inner = inner.args[0] if inner.args else None
        ok = isinstance(inner, ast.Call) and (dotted(inner.func) or '').endswith('.map') and \
            len(inner.args) >= 2 and isinstance(inner.args[0], ast.Name) and \
            inner.args[0].id == params[0] and isinstance(inner.args[1], ast.Name) and \
            inner.args[1].id == params[1] and \
            all(c.split('.')[-1] in ('list', 'gather', 'map', 'tuple') for c in chain)
        ctx.ob(rid, 'NautilusPool.map:returns-ordered', ok, pm.where(r),
               '`%s` maps func over the iterable in input order' % unparse(e) if ok else
               '`%s` is not an order-preserving map of func over the iterable' % unparse(e))
    # evaluate_likelihood: nothing reorders args/result/log_l/blobs
    names = {'args', 'result', 'log_l', 'blobs', 'points'}
    ob = order_breakers(ev.node, names)
    ctx.ob(rid, 'Sampler.evaluate_likelihood:order-preserved', not ob, ev.where(ob[0][0]) if ob
           else ev.where(), 'argument list, result list, log_l and blobs are never reordered'
           if not ob else 'results are reordered by %s' % [k for _, k in ob])
    # comprehension domains are the plain result list
    for n in walk_no_nested(ev.node):
        if isinstance(n, (ast.ListComp, ast.GeneratorExp)):
            for g in n.generators:
                base = g.iter
                if isinstance(base, ast.Call) and dotted(base.func) in ('enumerate', 'zip',
                                                                        'range'):
                    continue
                ok = isinstance(base, (ast.Name, ast.Subscript, ast.Attribute))
                ctx.ob(rid, 'Sampler.evaluate_likelihood:comprehension-order', ok, ev.where(n),
                       'comprehension iterates `%s` in order' % unparse(base))
    bad, good = _fixture_funcs('F5_bad.py'), _fixture_funcs('F5_good.py')
    nb = [x for fn in bad for x in unordered_calls(fn.node)] + \
         [x for fn in bad for x in order_breakers(fn.node, names)]
    ng = [x for fn in good for x in unordered_calls(fn.node)] + \
         [x for fn in good for x in order_breakers(fn.node, names)]
    if len(nb) < 2 or ng:
        raise AnalysisError('F5 fixture self-check failed (bad %d, good %d)' % (len(nb), len(ng)))
    ctx.ob(rid, 'fixture:F5', True, 'fixtures/F5_bad.py', 'rule fires on the bad fixture and is '
           'silent on the good one')


# ---------------------------------------------------------------------------
# F7 callback isolation
# ---------------------------------------------------------------------------

COPY_CALLS = {'np.copy', 'np.array', 'np.concatenate', 'np.repeat', 'np.vstack', 'np.append',
              'np.take'}


def _is_fresh(func, cfg, nid, e, depth=0):
    if depth > 5:
        return False
    if isinstance(e, ast.Subscript):
        # mask / index-array selection copies; a view of a fresh array is fresh as well
        if _index_makes_copy(cfg, nid, e.slice):
            return True
        return _is_fresh(func, cfg, nid, e.value, depth + 1)
    if isinstance(e, ast.Call):
        cn = dotted(e.func)
        if cn in COPY_CALLS:
            return True
        if isinstance(e.func, ast.Attribute) and e.func.attr == 'copy' and not e.args:
            return True
        return False
    if isinstance(e, ast.Name):
        defs = cfg.defs_at(nid, e.id)
        if not defs:
            return False
        for d in defs:
            dn = cfg.nodes[d]
            if dn.kind != 'stmt' or not isinstance(dn.ast, ast.Assign):
                return False
            val = dn.ast.value
            t0 = dn.ast.targets[0]
            if isinstance(t0, (ast.Tuple, ast.List)) and isinstance(val, (ast.Tuple, ast.List)) \
                    and len(t0.elts) == len(val.elts):
                # a, b = x, y : the element assigned to this name
                for tt, vv in zip(t0.elts, val.elts):
                    if isinstance(tt, ast.Name) and tt.id == e.id:
                        val = vv
            if not _is_fresh(func, cfg, d, val, depth + 1):
                return False
        return True
    return False


def rule_F7(ctx, rid='F7'):
    ctx.rule(rid, 'callback isolation: the array handed to the user prior transform is a fresh '
             'copy, never the array that is (or will be) stored in sampler state')
    prog = ctx.program
    n = 0
    for q in ('Sampler.evaluate_likelihood', 'Sampler.posterior'):
        f = prog.func(q)
        cfg = cfg_of(f)
        # names bound to the prior transform
        tnames = set()
        for st in walk_no_nested(f.node):
            if isinstance(st, ast.Assign) and isinstance(st.targets[0], ast.Name) and \
                    'prior' in unparse(st.value):
                tnames.add(st.targets[0].id)
        ctx.require(tnames, '%s: the prior transform is no longer bound to a local' % q)
        for c in walk_no_nested(f.node):
            if not isinstance(c, ast.Call) or not cfg.has(c):
                continue
            arg = None
            if isinstance(c.func, ast.Name) and c.func.id in tnames and c.args:
                arg = c.args[0]
            elif isinstance(c.func, ast.Name) and c.func.id == 'map' and len(c.args) == 2 and \
                    isinstance(c.args[0], ast.Name) and c.args[0].id in tnames:
                arg = c.args[1]
            if arg is None:
                continue
            n += 1
            ok = _is_fresh(f, cfg, cfg.node_of(c).id, arg)
            ctx.ob(rid, '%s:prior-argument' % q, ok, f.where(c),
                   'the prior receives `%s`, a fresh copy' % unparse(arg) if ok else
                   'the prior receives `%s`, which may be the very array that is stored: a prior '
                   'that modifies its argument in place would corrupt the stored points'
                   % unparse(arg))
    ctx.require(n >= 4, 'F7 found only %d prior-transform call sites (floor 4)' % n)
    return n


# ---------------------------------------------------------------------------
# F3 rng plumbing
# ---------------------------------------------------------------------------

F3_EXCEPTIONS = {
    # (caller, callee): reason
    ('UnitCubeEllipsoidMixture.compute', 'UnitCube.compute'):
        'UnitCube.compute(points) is a volume placeholder: only .log_v is read, it is replaced '
        'by an Ellipsoid or discarded before the mixture is returned (the cube that is actually '
        'sampled is built by the second call, which passes rng)',
}


def _rng_arg(func, call, callee):
    """Expression bound to the callee's `rng` parameter at this call, or None."""
    for k in call.keywords:
        if k.arg == 'rng':
            return k.value
        if k.arg is None:
            # **kwargs: follow a dict(...) literal local
            v = k.value
            if isinstance(v, ast.Name):
                for n in walk_no_nested(func.node):
                    if isinstance(n, ast.Assign) and isinstance(n.targets[0], ast.Name) and \
                            n.targets[0].id == v.id and isinstance(n.value, ast.Call) and \
                            dotted(n.value.func) == 'dict':
                        for kk in n.value.keywords:
                            if kk.arg == 'rng':
                                return kk.value
                    if isinstance(n, ast.Assign) and isinstance(n.targets[0], ast.Name) and \
                            n.targets[0].id == v.id and isinstance(n.value, ast.Dict):
                        for kk, vv in zip(n.value.keys, n.value.values):
                            if isinstance(kk, ast.Constant) and kk.value == 'rng':
                                return vv
    params = [p for p in callee.params if p not in (callee.self_name, 'cls')]
    if callee.kind == 'classmethod' and callee.params and callee.params[0] == 'cls':
        params = callee.params[1:]
    if 'rng' in params:
        i = params.index('rng')
        if i < len(call.args) and not any(isinstance(a, ast.Starred) for a in call.args):
            return call.args[i]
    return None


def _own_generator(func, e):
    """Is `e` the caller's own generator (parameter rng, self.rng, <obj>.rng)?"""
    if isinstance(e, ast.Name):
        if e.id == 'rng' and 'rng' in func.params:
            return True
        # a local bound from the parameter or from default_rng under `rng is None`
        for n in walk_no_nested(func.node):
            if isinstance(n, ast.Assign) and isinstance(n.targets[0], ast.Name) and \
                    n.targets[0].id == e.id:
                if not (_own_generator(func, n.value) or
                        (isinstance(n.value, ast.Call) and
                         (dotted(n.value.func) or '').endswith('default_rng'))):
                    return False
        return e.id == 'rng' or 'rng' in e.id
    if isinstance(e, ast.Attribute) and e.attr == 'rng' and isinstance(e.value, ast.Name):
        return True
    return False


def _assigned_to_local(func, call):
    """The call's value is bound to a plain local name (`x = C.compute(...)`), not stored
    into an attribute of an object."""
    for n in walk_no_nested(func.node):
        if isinstance(n, ast.Assign) and n.value is call and len(n.targets) == 1 and \
                isinstance(n.targets[0], ast.Name):
            return True
    return False


def rule_F3(ctx, rid='F3'):
    ctx.rule(rid, 'rng plumbing: every construction / restore / reset call whose callee takes an '
             'rng passes the caller\'s own generator (rng, self.rng, <object>.rng), so that one '
             'seeded generator reaches every object that draws; reset(rng) forwards the '
             'generator to every sub-object that has a reset')
    prog = ctx.program
    res = resolver(prog)
    n_sites = 0
    for f in prog.functions.values():
        for n in walk_no_nested(f.node):
            if not isinstance(n, ast.Call) or not isinstance(n.func, ast.Attribute):
                continue
            if n.func.attr not in ('compute', 'read', 'reset', 'train', '_reset_and_sample'):
                continue
            callees, status = res.resolve_call(f, n)
            callees = [c for c in callees if 'rng' in c.params and any(
                isinstance(x, ast.Name) and x.id == 'rng' and isinstance(x.ctx, ast.Load)
                for x in walk_no_nested(c.node))]      # callees that actually use their rng
            if not callees or status != 'typed':
                continue
            for callee in callees:
                n_sites += 1
                arg = _rng_arg(f, n, callee)
                key = '%s->%s' % (f.qualname, callee.qualname)
                if arg is None:
                    if callee.name == 'reset':
                        # reset() keeps the generator (callee guards on `rng is not None`)
                        ctx.ob(rid, key + ':keeps-generator', True, f.where(n),
                               'reset() without argument keeps the current generator')
                        continue
                    if (f.qualname, callee.qualname) in F3_EXCEPTIONS and \
                            _assigned_to_local(f, n):
                        ctx.ob(rid, key + ':placeholder', True, f.where(n),
                               'table exception: ' + F3_EXCEPTIONS[(f.qualname,
                                                                    callee.qualname)][:90])
                        continue
                    ctx.ob(rid, key + ':rng-missing', False, f.where(n),
                           '`%s` does not pass a generator: the callee falls back to a fresh '
                           'unseeded one and its draws are not reproducible from the sampler '
                           'seed' % unparse(n)[:70])
                    continue
                ok = _own_generator(f, arg)
                ctx.ob(rid, key + (':rng' if ok else ':foreign-rng'), ok, f.where(n),
                       'passes the caller\'s generator `%s`' % unparse(arg) if ok else
                       'passes `%s`, which is not the caller\'s own generator' % unparse(arg))
    ctx.require(n_sites >= 30, 'F3 found only %d rng-taking call sites (floor 30)' % n_sites)
    # the generator object handed out must stay the object the owner keeps using: no rebinding
    # of self.rng after it has been passed to a constructor / reader in the same function
    for f in prog.functions.values():
        if not f.self_name:
            continue
        cfg = cfg_of(f)
        rebinds = [n for n in cfg.nodes if n.kind == 'stmt' and isinstance(n.ast, ast.Assign)
                   and any(dotted(t) == '%s.rng' % f.self_name for t in n.ast.targets)]
        passes = []
        for c in walk_no_nested(f.node):
            if isinstance(c, ast.Call) and cfg.has(c) and any(
                    dotted(a) == '%s.rng' % f.self_name
                    for a in list(c.args) + [k.value for k in c.keywords]):
                passes.append(cfg.node_of(c).id)
        for r in rebinds:
            late = [p for p in passes if cfg.can_reach(p, r.id)]
            ctx.ob(rid, '%s:generator-identity' % f.qualname, not late, f.where(r.ast),
                   'self.rng is (re)bound before it is handed to any sub-object' if not late else
                   'self.rng is rebound after it was handed to a sub-object (line %s): that '
                   'object keeps the old generator and the streams diverge'
                   % [cfg.nodes[p].lineno for p in late])
    # reset forwarding
    for c in prog.classes.values():
        r = c.methods.get('reset')
        if r is None or 'rng' not in r.params:
            continue
        for (cn, attr), types in sorted(res.attr_types.items()):
            if cn != c.name:
                continue
            if not any('reset' in prog.classes[t].methods for t in types):
                continue
            if (c.name, attr) in (('Union', 'cube'),) and False:
                continue
            fw = False
            direct = set()
            rcfg = cfg_of(r)
            for n in walk_no_nested(r.node):
                if isinstance(n, ast.Call) and isinstance(n.func, ast.Attribute) and \
                        n.func.attr == 'reset' and (n.args or n.keywords) and \
                        _own_generator(r, (n.args or [n.keywords[0].value])[0]):
                    recv = n.func.value
                    ra = root_attr(recv, r.self_name)
                    if ra and ra[0] == attr:
                        fw = True
                        if not ra[1] and rcfg.has(n):
                            direct.add(rcfg.node_of(n).id)
                    if isinstance(recv, ast.Name):
                        # loop variable over self.<attr>
                        for lp in walk_no_nested(r.node):
                            if isinstance(lp, ast.For) and isinstance(lp.target, ast.Name) and \
                                    lp.target.id == recv.id:
                                ra2 = root_attr(lp.iter, r.self_name)
                                if ra2 and ra2[0] == attr:
                                    fw = True
            ctx.ob(rid, '%s.reset:forwards(%s)' % (c.name, attr), fw, r.where(),
                   'reset(rng) forwards the generator to self.%s' % attr if fw else
                   'reset(rng) does not forward the generator to self.%s: a worker copy would '
                   'keep drawing from the parent generator' % attr)
            if direct:
                # ... on every path on which a generator was given and the member exists,
                # whatever the other members are
                from .cfg import assume
                ok_all = rcfg.must_pass(rcfg.entry.id, rcfg.exit.id, direct, edge_ok=assume(
                    ('rng is None', False), ('%s.%s is None' % (r.self_name, attr), False)))
                ctx.ob(rid, '%s.reset:always-forwards(%s)' % (c.name, attr), ok_all, r.where(),
                       'whenever a generator is given and self.%s exists it receives the '
                       'generator' % attr if ok_all else
                       'some path of reset(rng) with a generator given and self.%s present '
                       'returns without `self.%s.reset(rng)` (e.g. an early return that depends '
                       'on ANOTHER member): that member keeps the old generator - every pool job '
                       'then draws the same proposals from it' % (attr, attr))
        # own generator replaced
        draws_own = any(any(d.startswith('self.rng.') for _, d, _ in res.direct(m).draws)
                        for m in c.methods.values())
        if draws_own:
            own = any(isinstance(n, ast.Assign) and any(
                isinstance(t, ast.Attribute) and t.attr == 'rng' for t in n.targets) and
                _own_generator(r, n.value) for n in walk_no_nested(r.node))
            ctx.ob(rid, '%s.reset:replaces-own-generator' % c.name, own, r.where(),
                   'reset(rng) installs the new generator for the object\'s own draws' if own
                   else 'reset(rng) keeps the old generator for the object\'s own draws')
    return n_sites


# ---------------------------------------------------------------------------
# G4 constructors agree on the order of an ordered member list
# ---------------------------------------------------------------------------

def _append_sequences(fn_node):
    """attr -> [frozenset of attribute names mentioned by the k-th appended payload], for list
    attributes of the object under construction that are filled by straight-line `.append`
    calls (appends inside loops are element-wise copies and carry their own order)."""
    obj = None
    for n in ast.walk(fn_node):
        if isinstance(n, ast.Assign) and isinstance(n.value, ast.Call) and \
                isinstance(n.value.func, ast.Name) and n.value.func.id == 'cls' and \
                isinstance(n.targets[0], ast.Name):
            obj = n.targets[0].id
    if obj is None:
        return {}
    in_loop = set()
    for lp in ast.walk(fn_node):
        if isinstance(lp, (ast.For, ast.While, ast.ListComp, ast.GeneratorExp)):
            for x in ast.walk(lp):
                in_loop.add(id(x))
    seqs = {}
    calls = [c for c in ast.walk(fn_node) if isinstance(c, ast.Call) and
             isinstance(c.func, ast.Attribute) and c.func.attr == 'append' and c.args and
             isinstance(c.func.value, ast.Attribute) and isinstance(c.func.value.value, ast.Name)
             and c.func.value.value.id == obj and id(c) not in in_loop]
    for c in sorted(calls, key=lambda c_: (c_.lineno, c_.col_offset)):
        sig = frozenset(x.attr for x in ast.walk(c.args[0]) if isinstance(x, ast.Attribute) and
                        isinstance(x.value, ast.Name) and x.value.id == obj)
        seqs.setdefault(c.func.value.attr, []).append(sig)
    return seqs


def list_order_disagreements(ctors):
    """[(attr, seq_a, seq_b)] for constructors whose straight-line appends to the same list
    attribute are the same payloads in a different order."""
    out = []
    tabs = [(_n, _append_sequences(_c)) for _n, _c in ctors]
    for i in range(len(tabs)):
        for j in range(i + 1, len(tabs)):
            for attr in set(tabs[i][1]) & set(tabs[j][1]):
                a, b = tabs[i][1][attr], tabs[j][1][attr]
                if len(a) >= 2 and sorted(map(sorted, a)) == sorted(map(sorted, b)) and a != b:
                    out.append((attr, tabs[i][0], tabs[j][0]))
    return out


def rule_G4(ctx, rid='G4'):
    ctx.rule(rid, 'constructors agree on member order: where compute() and read() fill the same '
             'list attribute by separate append calls, they append the same payloads in the same '
             'order (sample / reset walk the list while consuming one shared generator)')
    n = 0
    for c in ctx.program.classes.values():
        ctors = [(m, c.methods[m].node) for m in ('compute', 'read', 'train') if m in c.methods]
        if len(ctors) < 2:
            continue
        bad = list_order_disagreements(ctors)
        n += 1
        ctx.ob(rid, '%s:member-order-agrees' % c.name, not bad, c.methods[ctors[0][0]].where(),
               'constructors build their ordered member lists in the same order' if not bad else
               '%s() and %s() append the same members to self.%s in different orders: whatever '
               'walks the list while drawing from the shared generator (sample, reset) consumes '
               'the random numbers in another order after a write / read round trip - a '
               'different sample stream from the same generator state' % (
                   bad[0][1], bad[0][2], bad[0][0]))
    # fixtures: the rule must see the positive example and stay silent on the negative one
    for name, want in (('G4_bad.py', True), ('G4_good.py', False)):
        with open(os.path.join(VERIF, 'fixtures', name)) as fh:
            tree = ast.parse(fh.read())
        got = False
        for cl in ast.walk(tree):
            if isinstance(cl, ast.ClassDef):
                ct = [(f.name, f) for f in cl.body if isinstance(f, ast.FunctionDef) and
                      f.name in ('compute', 'read')]
                got = got or bool(list_order_disagreements(ct))
        ctx.ob(rid, 'fixture:%s' % name, got == want, 'fixtures/%s:1' % name,
               'the rule %s on the fixture as expected' % ('fires' if want else 'is silent'))
    return n



# ---------------------------------------------------------------------------
# G7: configured options reach the objects that use them
# ---------------------------------------------------------------------------

def _bound_arg(call, callee, pname):
    for k in call.keywords:
        if k.arg == pname:
            return k.value
        if k.arg is None:
            return 'kwargs'
    params = list(callee.params)
    if params and params[0] in ('cls', 'self'):
        params = params[1:]
    if pname in params:
        i = params.index(pname)
        if i < len(call.args) and not any(isinstance(a, ast.Starred) for a in call.args):
            return call.args[i]
    return None


def rule_G7(ctx, options, rid='G7'):
    """A tuning option the caller holds (as its own parameter or as an attribute of its object)
    and the callee's `compute` accepts under the same name is handed on at the call: otherwise
    the callee silently falls back to its default and the configured value (minimum number of
    points per ellipsoid, enlargement, split threshold, ...) is not the one in force."""
    ctx.rule(rid, 'options-handed-on: every `compute` call passes each of %s that both caller '
             'and callee know, bound to the caller\'s own value' % sorted(options))
    prog = ctx.program
    res = resolver(prog)
    held = {}      # class name -> attributes assigned anywhere in the class

    def attrs_of(cls):
        if cls.name not in held:
            s = set()
            for m in cls.methods.values():
                sn = m.self_name
                objs = {sn} if sn else set()
                for n in walk_no_nested(m.node):
                    # the object under construction in a classmethod: `bound = cls()`
                    if isinstance(n, ast.Assign) and isinstance(n.value, ast.Call) and \
                            isinstance(n.value.func, ast.Name) and n.value.func.id == 'cls' \
                            and isinstance(n.targets[0], ast.Name):
                        objs.add(n.targets[0].id)
                for n in walk_no_nested(m.node):
                    if isinstance(n, ast.Assign):
                        for t in n.targets:
                            if isinstance(t, ast.Attribute) and isinstance(t.value, ast.Name) \
                                    and t.value.id in objs:
                                s.add(t.attr)
            held[cls.name] = s
        return held[cls.name]

    n = 0
    for f in prog.functions.values():
        for c in walk_no_nested(f.node):
            if not (isinstance(c, ast.Call) and isinstance(c.func, ast.Attribute) and
                    c.func.attr == 'compute'):
                continue
            callees, status = res.resolve_call(f, c)
            if status != 'typed':
                continue
            for callee in callees:
                for p in callee.params:
                    if p not in options:
                        continue
                    mine = p in f.params or (f.cls is not None and f.self_name and
                                             p in attrs_of(f.cls))
                    if not mine:
                        continue
                    arg = _bound_arg(c, callee, p)
                    n += 1
                    key = '%s->%s:%s' % (f.qualname, callee.qualname, p)
                    if arg == 'kwargs':
                        ctx.ob(rid, key, True, f.where(c), 'options forwarded as **kwargs')
                        continue
                    ok = arg is not None and any(
                        (isinstance(x, ast.Name) and x.id == p) or
                        (isinstance(x, ast.Attribute) and x.attr == p)
                        for x in ast.walk(arg))
                    ctx.ob(rid, key, ok, f.where(c),
                           '`%s` is handed on' % p if ok else
                           ('`%s` does not pass `%s`: %s falls back to its default and the '
                            'configured value is not the one in force'
                            % (unparse(c)[:50], p, callee.qualname) if arg is None else
                            '`%s` is bound to `%s`, not to the caller\'s own `%s`'
                            % (p, unparse(arg)[:40], p)))
    return n


def rule_F11(ctx, rid='F11'):
    """What posterior() hands to the caller is the caller's to modify: none of the returned
    arrays is (a view of) an array the sampler keeps.  `log_l -= log_l.max()` on the caller's
    side must not rewrite the stored likelihoods (C03_m: a helper returning `arrays[0]` - a view
    of the only shell - instead of a concatenation)."""
    ctx.rule(rid, 'returns-fresh: no array returned by posterior() may alias sampler state')
    f = ctx.program.func('Sampler.posterior')
    cfg = cfg_of(f)
    n = 0
    for r in walk_no_nested(f.node):
        if not isinstance(r, ast.Return) or r.value is None or not cfg.has(r):
            continue
        nid = cfg.node_of(r).id
        elts = r.value.elts if isinstance(r.value, ast.Tuple) else [r.value]
        for e in elts:
            if not isinstance(e, ast.Name):
                continue
            why = aliases_state(f, cfg, nid, e.id)
            n += 1
            ctx.ob(rid, 'Sampler.posterior:returns-fresh(%s)' % e.id, why is None, f.where(r),
                   '`%s` is a fresh array on every path' % e.id if why is None else
                   'the returned `%s` may be %s: a caller that modifies the result in place '
                   'rewrites what the sampler stores' % (e.id, why))
    ctx.require(n >= 3, 'F11 saw only %d returned arrays in posterior() (floor 3)' % n)
    return n


def rule_F12(ctx, rid='F12'):
    """The array a vectorised likelihood returns belongs to the user (it may be a buffer the
    likelihood reuses on its next call).  What evaluate_likelihood hands on is built from it by
    a copying call (`np.array`, a comprehension); `np.asarray / atleast_1d / reshape / a bare
    name` pass the user's own array on, and the sampler then stores it."""
    ctx.rule(rid, 'likelihood-output-owned: evaluate_likelihood returns arrays built by copying '
             'calls, never (a view of) the object the likelihood returned')
    f = ctx.program.func('Sampler.evaluate_likelihood')
    cfg = cfg_of(f)
    # names bound to what the likelihood returned
    user = set()
    for st in walk_no_nested(f.node):
        if isinstance(st, ast.Assign) and len(st.targets) == 1 and \
                isinstance(st.targets[0], ast.Name) and isinstance(st.value, ast.Call) and \
                dotted(st.value.func) == '%s.likelihood' % f.self_name:
            user.add(st.targets[0].id)
    ctx.require(user, 'F12: direct (vectorised) likelihood call not found')

    def passes_on(e, depth=0):
        """Does `e` evaluate to (a view of) a user-owned name?"""
        if depth > 6:
            return True
        if isinstance(e, ast.Name):
            if e.id in user:
                return True
            return False
        if isinstance(e, ast.Call):
            d = dotted(e.func) or ''
            if d in VIEW_CALLS and e.args:
                return passes_on(e.args[0], depth + 1)
            if isinstance(e.func, ast.Attribute) and e.func.attr in (
                    'reshape', 'view', 'ravel', 'squeeze', 'transpose', 'astype') and \
                    not (e.func.attr == 'astype' and not any(
                        k.arg == 'copy' for k in e.keywords)):
                return passes_on(e.func.value, depth + 1)
            return False
        if isinstance(e, ast.Subscript):
            return passes_on(e.value, depth + 1) and not _index_makes_copy(cfg, 0, e.slice) \
                if False else passes_on(e.value, depth + 1) and isinstance(e.slice, ast.Slice)
        if isinstance(e, ast.IfExp):
            return passes_on(e.body, depth + 1) or passes_on(e.orelse, depth + 1)
        return False
    n = 0
    for st in walk_no_nested(f.node):
        if not (isinstance(st, ast.Assign) and len(st.targets) == 1 and
                isinstance(st.targets[0], ast.Name) and st.targets[0].id not in user):
            continue
        mentions = any(isinstance(x, ast.Name) and x.id in user for x in ast.walk(st.value))
        if not mentions:
            continue
        bad = passes_on(st.value)
        n += 1
        ctx.ob(rid, 'Sampler.evaluate_likelihood:%s:owned' % st.targets[0].id, not bad,
               f.where(st), '`%s` builds a new array' % unparse(st)[:50] if not bad else
               '`%s` passes the likelihood\'s own return object on (no copy): a vectorised '
               'likelihood that reuses its output buffer overwrites what the sampler stored, '
               'and the result differs from the scalar evaluation of the same function'
               % unparse(st)[:60])
    ctx.require(n >= 2, 'F12 saw only %d values built from the likelihood output (floor 2)' % n)
    return n

# Negative fixture for rule G1 (parsed only, never imported or executed).
DEFAULTS = ('a', 'b')


class Thing:
    kind = 'thing'                      # immutable class attribute

    def __init__(self, options={}):
        options = dict(options)         # a private copy first
        options['seen'] = True
        self.options = options

    def remember(self, key, value):
        self.cache = {key: value}

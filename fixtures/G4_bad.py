"""Positive example for rule G4 (constructors agree on the order of an ordered member list)."""


class Mix:

    @classmethod
    def compute(cls, points):
        bound = cls()
        bound.parts = []
        if bound.cube is not None:
            bound.parts.append((bound.idx_cube, bound.cube))
        if bound.ellipsoid is not None:
            bound.parts.append((bound.idx_ell, bound.ellipsoid))
        return bound

    @classmethod
    def read(cls, group):
        bound = cls()
        bound.parts = []
        if bound.ellipsoid is not None:
            bound.parts.append((bound.idx_ell, bound.ellipsoid))
        if bound.cube is not None:
            bound.parts.append((bound.idx_cube, bound.cube))
        return bound

# Negative fixture for rule F4 (parsed only, never imported or executed).
import numpy as np
from sklearn.neural_network import MLPRegressor


def compute(points, rng=None, seed=0):
    if rng is None:
        rng = np.random.default_rng()
    other = np.random.default_rng(seed)
    net = MLPRegressor(random_state=rng.integers(2**31)).fit(points, points)
    container = MLPRegressor()
    return rng, other, net, container

# Positive fixture for rule S1 (never imported or executed; parsed only).
import numpy as np


def evaluate(result, dtype):
    blobs = [r[1:] for r in result]
    blobs = np.squeeze(np.array(blobs, dtype=dtype))      # drops the batch axis when len == 1
    return blobs


def evaluate2(result):
    return np.array(result).squeeze(axis=0)

# Negative fixture for rule G2 (parsed only, never imported or executed).
from sklearn.neural_network import MLPRegressor


def read(group):
    networks = [MLPRegressor() for _ in range(group.attrs['n_networks'])]
    zeros = [0] * 3                     # immutable elements may be replicated
    names = ['x'] * 2
    return networks, zeros, names

# Positive fixture for rule F4 (parsed only, never imported or executed).
import numpy as np
import random
from sklearn.neural_network import MLPRegressor


def compute(points, rng=None):
    rng = np.random.default_rng()            # unseeded, unconditional
    x = np.random.normal(size=3)             # legacy global RNG
    y = random.random()                      # stdlib global RNG
    net = MLPRegressor().fit(points, points)  # fitted without random_state
    for k in set([1, 2, 3]):                  # set iteration order
        pass
    return rng, x, y, net

# Negative fixture for rule F9 (parsed only, never imported or executed).
import numpy as np


def transform(self, points):
    points_t = np.copy(points)
    points_t[:, 0] = points_t[:, 0] * 2
    return points_t


def centre(self, points):
    points = points - self.c                        # rebinding, not in-place
    points *= 2                                     # the new array is private
    return points


def write(self, group):
    group.attrs['n'] = 3                            # HDF5 group: writing is the purpose
    group['points'][...] = self.points

# Negative fixture for rule S1 (never imported or executed; parsed only).
import numpy as np


def evaluate(result, dtype):
    blobs = np.array([r[1:] for r in result], dtype=dtype)
    if blobs.ndim > 1 and blobs.shape[1] == 1:
        blobs = np.squeeze(blobs, axis=1)
    return blobs

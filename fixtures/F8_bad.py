# Positive fixture for rule F8 (parsed only, never imported or executed).
import numpy as np


def isf(self, q):
    if np.ndim(q) == 0:                        # a single value takes a short cut ...
        return self.high - q * (self.high - self.low)
    return self.dist.isf(q)                    # ... a batch goes through the library


def transform(self, points):
    points = np.asarray(points)
    if points.ndim == 1:                       # different arithmetic for one point
        return points * self.scale + self.loc
    else:
        return self.loc + self.scale * points

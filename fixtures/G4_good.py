"""Negative example for rule G4: both constructors append in the same order."""


class Mix:

    @classmethod
    def compute(cls, points):
        bound = cls()
        bound.parts = []
        if bound.cube is not None:
            bound.parts.append((bound.idx_cube, bound.cube))
        if bound.ellipsoid is not None:
            bound.parts.append((bound.idx_ell, bound.ellipsoid))
        return bound

    @classmethod
    def read(cls, group):
        bound = cls()
        bound.parts = []
        if group.attrs['has_cube']:
            bound.parts.append((bound.idx_cube, bound.cube))
        if group.attrs['has_ell']:
            bound.parts.append((bound.idx_ell, bound.ellipsoid))
        return bound

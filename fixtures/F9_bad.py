# Positive fixture for rule F9 (parsed only, never imported or executed).
import numpy as np


def transform(self, points):
    points_t = np.asarray(points, dtype=float)      # no copy for a float array
    points_t[:, 0] = points_t[:, 0] * 2             # writes into the caller's array
    return points_t


def centre(self, points):
    points -= self.c                                # in-place on the argument itself
    return points


def order(self, values):
    view = values[::2]                              # basic slice: a view
    view.sort()
    return values

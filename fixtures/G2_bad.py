# Positive fixture for rule G2 (parsed only, never imported or executed).
from sklearn.neural_network import MLPRegressor


def read(group):
    networks = [MLPRegressor()] * group.attrs['n_networks']     # one object, n references
    rows = [[]] * 3
    return networks, rows

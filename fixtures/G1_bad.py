# Positive fixture for rule G1 (parsed only, never imported or executed).
CACHE = {}


class Thing:
    registry = []                       # class-level mutable: shared by all instances

    def __init__(self, options={}):
        options['seen'] = True          # mutates the shared default object
        self.options = options

    def remember(self, key, value):
        global CACHE
        CACHE[key] = value              # process-wide state

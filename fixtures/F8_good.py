# Negative fixture for rule F8 (parsed only, never imported or executed).
import numpy as np


def isf(self, q):
    return self.dist.isf(q)                    # one formula for every shape


def transform(self, points):
    if self.dimensionality() != np.shape(points)[-1]:     # validation only: rejects
        raise ValueError('Dimensionality of points does not match the prior.')
    try:
        assert self.dimensionality() == points.shape[-1]
    except AssertionError:
        raise ValueError('Dimensionality of points does not match the prior.')
    return self.loc + self.scale * points

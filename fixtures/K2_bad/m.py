"""Fixture for rule K2 (memo coherence): Outer.merge changes the counters of its member without
invalidating the value the member cached from them."""


class Inner:
    def __init__(self):
        self.n = 0
        self.r = 0
        self._v = None

    def draw(self, k):
        self.n += k
        self.r += 1
        self._v = None

    def restart(self):
        self._v = None
        self.n = 0
        self.r = 0

    @property
    def v(self):
        if self._v is None:
            self._v = 1.0 - self.r / self.n
        return self._v


class Outer:
    def __init__(self):
        self.inner = Inner()

    def merge(self, k, r):
        self.inner.n += k
        self.inner.r += r


class Counter:
    """The helper changes an input of the cache; one of its callers forgets to invalidate."""

    def __init__(self):
        self.k = 0
        self._twice = None

    def _bump(self):
        self.k += 1

    def step(self):
        self._bump()
        self._twice = None

    def leap(self):
        self._bump()
        self._bump()

    @property
    def twice(self):
        if self._twice is None:
            self._twice = 2 * self.k
        return self._twice

# Positive fixture for rule F5 (parsed only).
import numpy as np


def map_(self, func, iterable):
    return list(self.pool.imap_unordered(func, iterable))


def evaluate(self, args):
    result = list(map(self.likelihood, args))
    result = sorted(result)
    log_l = np.array([r for r in result])
    return log_l

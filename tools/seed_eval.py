#!/usr/bin/env python3
"""Confirm an independently written breaking change and run the checks against it.

usage: seed_eval.py TAG [--skip-tests] [--prop Cxx]
expects /tmp/TAG_patch.diff, /tmp/TAG_demo.py, /tmp/TAG_notes.txt (written by a sub-agent
that saw only the property text).  Steps:
  1. scratch worktree of /repo under /tmp: apply the patch, byte-compile, run the
     demonstration (must fail), run the existing test-suite (must pass), undo the patch,
     run the demonstration again (must pass); remove the worktree;
  2. apply the patch to /repo, run every check (output redirected so that the committed
     evidence is untouched), undo the patch straight afterwards;
  3. if step 1 confirmed everything, keep the change as /verif/seeded/TAG/.
"""
import argparse
import json
import os
import shutil
import subprocess
import sys
import tempfile
import time

VERIF = os.path.dirname(os.path.dirname(os.path.abspath(__file__)))
PY = '/venv/bin/python'
PROPS = ['C01', 'C02', 'C03', 'C05', 'C06', 'C07', 'C08', 'C09', 'C10', 'C11', 'C12', 'C13',
         'C14', 'C15', 'C16']


def sh(cmd, cwd=None, timeout=1800, env=None):
    if env is None and cwd is not None:
        # make sure `import nautilus` resolves to the tree in cwd even for `python script.py`
        # (sys.path[0] is the script's directory then, not cwd)
        env = dict(os.environ, PYTHONPATH=cwd + os.pathsep + os.environ.get('PYTHONPATH', ''))
    r = subprocess.run(cmd, cwd=cwd, shell=isinstance(cmd, str), capture_output=True, text=True,
                       timeout=timeout, env=env)
    return r.returncode, (r.stdout + r.stderr)


def demo_verdict(rc, out):
    tail = out.strip().splitlines()[-5:]
    failed = rc != 0 or any('FAIL' in l for l in tail)
    return failed, tail


def main():
    ap = argparse.ArgumentParser()
    ap.add_argument('tag')
    ap.add_argument('--skip-tests', action='store_true')
    ap.add_argument('--prop')
    a = ap.parse_args()
    tag = a.tag
    prop = a.prop or tag.split('_')[0]
    patch = '/tmp/%s_patch.diff' % tag
    demo = '/tmp/%s_demo.py' % tag
    notes = '/tmp/%s_notes.txt' % tag
    for f in (patch, demo):
        if not os.path.exists(f):
            print('missing', f)
            return 2
    meta = {'tag': tag, 'breaks_property': prop, 'ran': []}
    wt = tempfile.mkdtemp(prefix='sv_%s_' % tag)
    os.rmdir(wt)
    rc, out = sh(['git', '-C', '/repo', 'worktree', 'add', '-q', '--detach', wt, 'HEAD'])
    if rc:
        print(out)
        return 2
    confirmed = False
    try:
        rc, out = sh(['git', 'apply', patch], cwd=wt)
        meta['ran'].append('git apply patch.diff (scratch worktree): rc=%d' % rc)
        if rc:
            print('PATCH DOES NOT APPLY', out)
            return 3
        rc, out = sh([PY, '-m', 'compileall', '-q', 'nautilus'], cwd=wt)
        meta['ran'].append('compileall nautilus: rc=%d' % rc)
        compiles = rc == 0
        t0 = time.time()
        rc, out = sh([PY, demo], cwd=wt, timeout=900)
        failed_with, tail = demo_verdict(rc, out)
        meta['ran'].append('demo with change: rc=%d (%s) %.0fs tail=%r' % (
            rc, 'FAILS' if failed_with else 'passes', time.time() - t0, tail[-2:]))
        tests_ok = None
        if not a.skip_tests:
            rc1, o1 = sh(PY + ' -m pytest -q -p no:cacheprovider --timeout=900 -n 6 '
                         'tests/test_sampler.py tests/test_blobs.py tests/test_pool.py '
                         'tests/test_bounds.py tests/test_neural.py tests/test_prior.py',
                         cwd=wt, timeout=3000)
            if rc1 != 0:
                # test_pool is timing sensitive under heavy machine load: one retry
                failed1 = [l for l in o1.splitlines() if l.startswith('FAILED')]
                meta['ran'].append('first attempt had failures (retrying once): %s' % failed1[:3])
                rc1, o1 = sh(PY + ' -m pytest -q -p no:cacheprovider --timeout=900 -n 6 '
                             'tests/test_sampler.py tests/test_blobs.py tests/test_pool.py '
                             'tests/test_bounds.py tests/test_neural.py tests/test_prior.py',
                             cwd=wt, timeout=3000)
            rc2, o2 = sh(PY + ' -m pytest -q -p no:cacheprovider --timeout=900 tests/test_io.py',
                         cwd=wt, timeout=3000)
            tests_ok = rc1 == 0 and rc2 == 0
            meta['ran'].append('existing tests with change: %s | %s' % (
                o1.strip().splitlines()[-1] if o1.strip() else rc1,
                o2.strip().splitlines()[-1] if o2.strip() else rc2))
        sh(['git', 'checkout', '--', '.'], cwd=wt)
        for junk in ('test.hdf5', 'test.hdf5.tmp'):
            if os.path.exists(os.path.join(wt, junk)):
                os.remove(os.path.join(wt, junk))
        rc, out = sh([PY, demo], cwd=wt, timeout=900)
        failed_without, tail = demo_verdict(rc, out)
        meta['ran'].append('demo without change: rc=%d (%s) tail=%r' % (
            rc, 'FAILS' if failed_without else 'passes', tail[-2:]))
        confirmed = compiles and failed_with and not failed_without and tests_ok in (True, None)
        meta['confirmed'] = {'compiles': compiles, 'demo_fails_with_change': failed_with,
                             'demo_passes_without': not failed_without,
                             'existing_tests_pass': tests_ok}
    finally:
        sh(['git', '-C', '/repo', 'worktree', 'remove', '--force', wt])
        shutil.rmtree(wt, ignore_errors=True)
    # step 2: the checks against /repo with the change applied (serialised by a lock so that
    # concurrent evaluations and developer runs never see each other's patch)
    import fcntl
    lock = open('/tmp/nv_repo.lock', 'w')
    fcntl.flock(lock, fcntl.LOCK_EX)
    outdir = tempfile.mkdtemp(prefix='sv_out_')
    results = {}
    rc, out = sh(['git', '-C', '/repo', 'status', '--porcelain'])
    if out.strip():
        print('/repo is not clean; refusing to apply', out)
        return 4
    rc, out = sh(['git', '-C', '/repo', 'apply', patch])
    try:
        if rc:
            print('patch does not apply to /repo', out)
            return 3
        env = dict(os.environ, NVSTAT_OUT=outdir)
        for p in PROPS:
            rc, out = sh([PY, os.path.join(VERIF, 'nvstat', 'check.py'), '-p', p], env=env)
            f = [l for l in out.splitlines() if l.startswith(('FINDING', 'ANALYSIS-ERROR'))]
            results[p] = {'exit': rc, 'findings': f[:4]}
    finally:
        sh(['git', '-C', '/repo', 'checkout', '--', '.'])
        shutil.rmtree(outdir, ignore_errors=True)
        fcntl.flock(lock, fcntl.LOCK_UN)
    caught = [p for p, v in results.items() if v['exit'] == 1]
    errored = [p for p, v in results.items() if v['exit'] == 2]
    meta['checks'] = {'caught_by': caught, 'analysis_error': errored,
                      'findings': {p: results[p]['findings'] for p in caught + errored}}
    meta['ran'].append('git -C /repo apply; 15 quick checks; git -C /repo checkout -- .')
    if os.path.exists(notes):
        meta['needs_to_manifest'] = open(notes).read().strip()
    print(json.dumps(meta, indent=1))
    if confirmed:
        d = os.path.join(VERIF, 'seeded', tag)
        os.makedirs(d, exist_ok=True)
        shutil.copy(patch, os.path.join(d, 'patch.diff'))
        shutil.copy(demo, os.path.join(d, 'demo.py'))
        with open(os.path.join(d, 'meta.json'), 'w') as fh:
            json.dump(meta, fh, indent=1)
        print('KEPT as seeded/%s  caught_by=%s' % (tag, caught))
    else:
        print('NOT CONFIRMED: not kept')
    return 0


if __name__ == '__main__':
    sys.exit(main())

#!/usr/bin/env python3
"""Ad-hoc: apply one textual replacement to a scratch copy of /repo/nautilus and run a check.
usage: trymut.py PROP FILE 'old' 'new' [--count N]"""
import os, shutil, subprocess, sys, tempfile
prop, rel, old, new = sys.argv[1:5]
d = tempfile.mkdtemp(prefix='nvmut_')
try:
    import fcntl
    with open('/tmp/nv_repo.lock', 'w') as lk:      # never copy a temporarily patched tree
        fcntl.flock(lk, fcntl.LOCK_EX)
        shutil.copytree('/repo/nautilus', os.path.join(d, 'nautilus'),
                        ignore=shutil.ignore_patterns('__pycache__'))
    p = os.path.join(d, rel)
    s = open(p).read()
    if old not in s:
        print('OLD TEXT NOT FOUND'); sys.exit(3)
    open(p, 'w').write(s.replace(old, new, 1))
    import py_compile
    py_compile.compile(p, doraise=True)
    for pr in prop.split(','):
        r = subprocess.run([sys.executable, os.path.join(os.path.dirname(__file__), '..', 'nvstat', 'check.py'),
                            '-p', pr, '--repo', d], capture_output=True, text=True,
                           env=dict(os.environ, NVSTAT_OUT=os.path.join(d, 'out')))
        print('\n'.join(l for l in r.stdout.splitlines() if not l.startswith('VIOLATION'))[-1500:], '-> exit', r.returncode)
finally:
    shutil.rmtree(d)

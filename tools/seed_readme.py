#!/usr/bin/env python3
"""Regenerate seeded/README.md from the meta.json files."""
import glob, json, os
HERE = os.path.dirname(os.path.dirname(os.path.abspath(__file__)))
rows = []
for f in sorted(glob.glob(os.path.join(HERE, 'seeded', '*', 'meta.json'))):
    m = json.load(open(f))
    tag = m['tag']
    caught = m.get('checks', {}).get('caught_by', [])
    err = m.get('checks', {}).get('analysis_error', [])
    fnd = m.get('checks', {}).get('findings', {})
    first = ''
    for p in caught:
        if fnd.get(p):
            first = fnd[p][0]
            break
    rule = ''
    if 'rule=' in first:
        rule = first.split('rule=')[1].split()[0] + ' ' + first.split('construct=')[1].split(' at ')[0]
    needs = (m.get('needs_to_manifest') or '').split('\n')[0][:110]
    rows.append((tag, m['breaks_property'], ', '.join(caught) or '-', ', '.join(err) or '-', rule[:90],
                 needs, m.get('static_note', '')))
with open(os.path.join(HERE, 'seeded', 'README.md'), 'w') as fh:
    fh.write('# Independently seeded breaking changes\n\n'
             'Each directory holds a change written by a sub-agent that saw only the text of one '
             'property and a scratch worktree (nothing from /verif): `patch.diff`, the '
             'demonstration `demo.py` (fails with the change, passes without) and `meta.json` '
             '(what it breaks, what it needs to manifest, what was run to confirm it, and which '
             'checks report it).  Every change compiles and passes the unedited 144-test suite.\n\n'
             '| change | breaks | caught by (exit 1) | exit 2 | first rule / construct | what it is | note |\n'
             '|---|---|---|---|---|---|---|\n')
    for r in rows:
        fh.write('| %s |\n' % ' | '.join(x.replace('|', '/') for x in r))
    n = len(rows)
    c = sum(1 for r in rows if r[2] != '-')
    own = sum(1 for r in rows if r[1] in r[2].split(', '))
    fh.write('\n%d changes kept; %d reported by at least one check (%d by the check of the '
             'property they were written against).\n' % (n, c, own))
print('seeded/README.md: %d rows' % len(rows))

#!/bin/sh
# usage: tools/probe_all.sh TAG...   -- one line per tag: which checks report / error
cd "$(dirname "$0")/.." || exit 2
for t in "$@"; do
  ( /venv/bin/python tools/patch_probe.py /tmp/${t}_patch.diff > /tmp/probe_$t.out 2>&1
    own=$(echo $t | cut -d_ -f1)
    c=$(grep -E "^C[0-9]+ exit 1" /tmp/probe_$t.out | cut -d' ' -f1 | tr '\n' ' ')
    e=$(grep -E "^C[0-9]+ exit 2" /tmp/probe_$t.out | cut -d' ' -f1 | tr '\n' ' ')
    case " $c" in *" $own "*) o=OWN;; *) o=own-MISSING;; esac
    echo "$t $o caught=[$c] error=[$e]" ) &
done
wait

#!/usr/bin/env python3
"""Blind-spot scan (developer aid, not a registered check): apply small syntactic mutations to
one file of a scratch copy of /repo/nautilus, run every property's rules on the parsed copy
(nothing is executed) and list the mutants no check reports.  Survivors are either
behaviour-preserving, irrelevant to the 15 properties, or gaps worth a rule.

usage: mutscan.py nautilus/sampler.py [--jobs 8] [--limit 400] [--seed 1] [--func NAME]
"""
import argparse
import ast
import copy
import importlib
import io
import json
import os
import random
import shutil
import sys
import tempfile
from concurrent.futures import ProcessPoolExecutor
from contextlib import redirect_stdout

HERE = os.path.dirname(os.path.abspath(__file__))
sys.path.insert(0, os.path.dirname(HERE))
PROPS = ['C01', 'C02', 'C03', 'C05', 'C06', 'C07', 'C08', 'C09', 'C10', 'C11', 'C12', 'C13',
         'C14', 'C15', 'C16']

FLIP = {ast.Lt: ast.LtE, ast.LtE: ast.Lt, ast.Gt: ast.GtE, ast.GtE: ast.Gt, ast.Eq: ast.NotEq,
        ast.NotEq: ast.Eq, ast.Is: ast.IsNot, ast.IsNot: ast.Is, ast.In: ast.NotIn,
        ast.NotIn: ast.In}
SWAP = {ast.Add: ast.Sub, ast.Sub: ast.Add, ast.Mult: ast.Div, ast.Div: ast.Mult}
# data-level kinds (round 7): aliasing, reductions, argument order, keywords
FNSWAP = {'all': 'any', 'any': 'all', 'min': 'max', 'max': 'min', 'amin': 'amax', 'amax': 'amin',
          'argmin': 'argmax', 'argmax': 'argmin', 'floor': 'ceil', 'ceil': 'floor',
          'nanmax': 'amax', 'nanmin': 'amin', 'logical_and': 'logical_or',
          'logical_or': 'logical_and', 'zeros': 'ones', 'ones': 'zeros', 'cumsum': 'cumprod',
          'append': 'insert', 'deepcopy': 'copy', 'sort': 'argsort', 'argsort': 'sort',
          'isnan': 'isfinite', 'exp': 'log', 'log': 'exp', 'sum': 'prod', 'mean': 'median',
          'vstack': 'hstack', 'unique': 'sort', 'logaddexp': 'maximum', 'minimum': 'maximum',
          'maximum': 'minimum'}
COPYFN = {'copy', 'deepcopy', 'array', 'asarray', 'atleast_1d', 'atleast_2d', 'list', 'tuple'}


def _fname(call):
    f = call.func
    return f.attr if isinstance(f, ast.Attribute) else f.id if isinstance(f, ast.Name) else None


def sites(tree, only_func=None):
    """[(kind, path)] where path identifies a node by its index in ast.walk order."""
    out = []
    nodes = list(ast.walk(tree))
    infunc = set()
    for fn in nodes:
        if isinstance(fn, ast.FunctionDef) and (only_func is None or fn.name == only_func):
            for x in ast.walk(fn):
                infunc.add(id(x))
    for i, n in enumerate(nodes):
        if id(n) not in infunc:
            continue
        if isinstance(n, ast.Compare) and len(n.ops) == 1 and type(n.ops[0]) in FLIP:
            out.append(('cmp', i))
        elif isinstance(n, ast.BinOp) and type(n.op) in SWAP:
            out.append(('bin', i))
        elif isinstance(n, ast.Constant) and isinstance(n.value, (int, float)) and \
                not isinstance(n.value, bool) and n.value in (0, 1, -1, 2):
            out.append(('const', i))
        elif isinstance(n, ast.UnaryOp) and isinstance(n.op, ast.Not):
            out.append(('not', i))
        elif isinstance(n, (ast.Expr, ast.Assign, ast.AugAssign)) and not (
                isinstance(n, ast.Expr) and isinstance(n.value, ast.Constant)):
            # dropping the only binding of a local just raises NameError: not interesting
            if isinstance(n, ast.Assign) and all(isinstance(t, (ast.Name, ast.Tuple))
                                                 for t in n.targets):
                continue
            out.append(('del', i))
        elif isinstance(n, ast.If) and not n.orelse:
            out.append(('iftrue', i))
        if isinstance(n, ast.Call):
            fn = _fname(n)
            if fn in FNSWAP:
                out.append(('fnswap', i))
            if fn in COPYFN and (len(n.args) == 1 or (
                    fn == 'copy' and isinstance(n.func, ast.Attribute) and not n.args)):
                out.append(('uncopy', i))
            if len(n.args) >= 2 and not any(isinstance(x, ast.Starred) for x in n.args):
                out.append(('argswap', i))
            for j in range(len(n.keywords)):
                if n.keywords[j].arg is not None:
                    out.append(('kwdrop%d' % j, i))
        if isinstance(n, ast.Assign) and len(n.targets) == 1 and isinstance(n.value, ast.BinOp) \
                and ast.dump(n.targets[0]).replace('Store()', 'Load()') == ast.dump(n.value.left):
            out.append(('aug', i))
        if isinstance(n, ast.AugAssign):
            out.append(('unaug', i))
        if isinstance(n, ast.Subscript) and isinstance(n.slice, ast.Slice) and \
                isinstance(n.ctx, ast.Load):
            out.append(('unslice', i))
    return out


def mutate(src, kind, idx):
    tree = ast.parse(src)
    nodes = list(ast.walk(tree))
    n = nodes[idx]
    desc = '%s@%d `%s`' % (kind, getattr(n, 'lineno', 0), ast.unparse(n)[:60].replace('\n', ' '))
    if kind == 'cmp':
        n.ops = [FLIP[type(n.ops[0])]()]
    elif kind == 'bin':
        n.op = SWAP[type(n.op)]()
    elif kind == 'const':
        n.value = {0: 1, 1: 0, -1: 1, 2: 1}[n.value]
    elif kind == 'not':
        parent = None
        for p in nodes:
            for f, v in ast.iter_fields(p):
                if v is n:
                    setattr(p, f, n.operand)
                    parent = p
                elif isinstance(v, list) and n in v:
                    v[v.index(n)] = n.operand
                    parent = p
        if parent is None:
            return None, desc
    elif kind == 'del':
        done = False
        for p in nodes:
            for f, v in ast.iter_fields(p):
                if isinstance(v, list) and n in v:
                    v[v.index(n)] = ast.copy_location(ast.Pass(), n)
                    done = True
        if not done:
            return None, desc
    elif kind == 'iftrue':
        n.test = ast.copy_location(ast.Constant(value=True), n.test)
    elif kind == 'fnswap':
        new = FNSWAP[_fname(n)]
        if isinstance(n.func, ast.Attribute):
            n.func.attr = new
        else:
            n.func.id = new
    elif kind == 'argswap':
        n.args[0], n.args[1] = n.args[1], n.args[0]
    elif kind.startswith('kwdrop'):
        del n.keywords[int(kind[6:])]
    elif kind in ('uncopy', 'aug', 'unaug', 'unslice'):
        if kind == 'uncopy':
            rep = n.args[0] if n.args else n.func.value
        elif kind == 'aug':
            rep = ast.AugAssign(target=n.targets[0], op=n.value.op, value=n.value.right)
        elif kind == 'unaug':
            load = ast.parse(ast.unparse(n.target)).body[0].value
            rep = ast.Assign(targets=[n.target], value=ast.BinOp(left=load, op=n.op,
                                                                  right=n.value))
        else:
            rep = n.value
        ast.copy_location(rep, n)
        done = False
        for p in nodes:
            for f, v in ast.iter_fields(p):
                if v is n:
                    setattr(p, f, rep)
                    done = True
                elif isinstance(v, list) and any(x is n for x in v):
                    v[[x is n for x in v].index(True)] = rep
                    done = True
        if not done:
            return None, desc
    ast.fix_missing_locations(tree)
    try:
        return ast.unparse(tree), desc
    except Exception:
        return None, desc


def run_one(args):
    rel, kind, idx, repo = args
    from nvstat.core import AnalysisError, Ctx
    from nvstat.loader import load_program
    d = tempfile.mkdtemp(prefix='mutscan_')
    try:
        import fcntl
        with open('/tmp/nv_repo.lock', 'w') as lk:
            fcntl.flock(lk, fcntl.LOCK_EX)
            shutil.copytree(os.path.join(repo, 'nautilus'), os.path.join(d, 'nautilus'),
                            ignore=shutil.ignore_patterns('__pycache__'))
        p = os.path.join(d, rel)
        src = open(p).read()
        new, desc = mutate(src, kind, idx)
        if new is None:
            return None
        try:
            compile(new, rel, 'exec')
        except SyntaxError:
            return None
        open(p, 'w').write(new)
        res = {}
        for prop in PROPS:
            try:
                prog = load_program(d)
                ctx = Ctx(prop, 'quick', prog, 0)
                mod = importlib.import_module('nvstat.props.' + prop)
                with redirect_stdout(io.StringIO()):
                    mod.run(ctx)
                from nvstat.core import load_known
                known = {(k.get('rule'), k.get('construct')) for k in load_known()
                         if k.get('property') == prop and k.get('status') == 'known'}
                if [o for o in ctx.failures() if (o.rule, o.construct) not in known]:
                    res[prop] = 1
                elif ctx.floor_failures:
                    res[prop] = 2
                else:
                    res[prop] = 0
            except AnalysisError:
                res[prop] = 2
            except Exception:
                res[prop] = 3
        return {'desc': desc, 'kind': kind, 'res': res}
    finally:
        shutil.rmtree(d, ignore_errors=True)


def main():
    ap = argparse.ArgumentParser()
    ap.add_argument('file')
    ap.add_argument('--jobs', type=int, default=8)
    ap.add_argument('--limit', type=int, default=300)
    ap.add_argument('--seed', type=int, default=1)
    ap.add_argument('--func')
    ap.add_argument('--kinds', default='cmp,bin,const,not,del,iftrue')
    ap.add_argument('--repo', default='/repo')
    ap.add_argument('--json')
    a = ap.parse_args()
    src = open(os.path.join(a.repo, a.file)).read()
    # the unparsed form is what gets mutated: normalise first so that only the mutation differs
    tree = ast.parse(src)
    kinds = a.kinds.split(',')
    st = [x for x in sites(tree, a.func) if x[0].rstrip('0123456789') in kinds]
    random.Random(a.seed).shuffle(st)
    st = st[:a.limit]
    work = [(a.file, k, i, a.repo) for k, i in st]
    with ProcessPoolExecutor(max_workers=a.jobs) as ex:
        results = [r for r in ex.map(run_one, work) if r]
    surv = [r for r in results if not any(v == 1 for v in r['res'].values())]
    err = [r for r in surv if any(v >= 2 for v in r['res'].values())]
    clean = [r for r in surv if r not in err]
    print('mutants %d  reported %d  only-analysis-error %d  unreported %d' % (
        len(results), len(results) - len(surv), len(err), len(clean)))
    for r in sorted(clean, key=lambda r: r['desc'].split('@')[1]):
        print('  SURVIVES', r['desc'])
    for r in sorted(err, key=lambda r: r['desc'].split('@')[1]):
        print('  EXIT2   ', r['desc'], [p for p, v in r['res'].items() if v >= 2])
    if a.json:
        json.dump(results, open(a.json, 'w'), indent=1)


if __name__ == '__main__':
    main()

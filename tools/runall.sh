#!/bin/sh
# Run every quick check on /repo under the same lock the seed evaluator uses.
cd "$(dirname "$0")/.."
exec flock /tmp/nv_repo.lock sh -c 'for p in C01 C02 C03 C05 C06 C07 C08 C09 C10 C11 C12 C13 C14 C15 C16; do ./nv -p $p --tier ${1:-quick} | tail -1; done' sh "$@"

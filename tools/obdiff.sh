#!/bin/sh
# usage: tools/obdiff.sh Cxx  -- obligations of the committed analyser vs the working tree
cd "$(dirname "$0")/.." || exit 2
P=$1
D=$(mktemp -d)
git stash -q && { NVSTAT_OUT=$D NVSTAT_DUMP=$D/old.json ./nv -p $P >/dev/null; git stash pop -q; }
NVSTAT_OUT=$D NVSTAT_DUMP=$D/new.json ./nv -p $P >/dev/null
/venv/bin/python - "$D" <<'PY'
import json, sys, collections
d = sys.argv[1]
try:
    o = json.load(open(d + '/old.json'))
except Exception:
    o = []
n = json.load(open(d + '/new.json'))
co = collections.Counter((r, c) for r, c, ok, w in o)
cn = collections.Counter((r, c) for r, c, ok, w in n)
print('old', len(o), 'new', len(n))
for k in sorted(set(co) | set(cn)):
    if co[k] != cn[k]:
        print('  %s %s: %d -> %d' % (k[0], k[1], co[k], cn[k]))
PY
rm -rf "$D"

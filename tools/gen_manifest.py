#!/usr/bin/env python3
"""Regenerate MANIFEST.json from the table below (kept in one place so that the
manifest, the claimed list and the not_applicable list cannot drift apart)."""
import json
import os

HERE = os.path.dirname(os.path.dirname(os.path.abspath(__file__)))

TRUST = ('CPython ast parses what the interpreter runs; no exec/eval/metaclasses in the package '
         '(swept on every run); library contracts listed in DESIGN.md 1.4; leaf floating-point '
         'geometry is assumed, not decided.')

CLAIMS = {
    'C01': dict(
        technique='membership-fact rules with bounded evaluation of index arithmetic; lockstep '
                  'move/complement analysis; sibling pairing of the transfer replacement',
        text='Decides the partition mechanism: fresh proposals are met with NOT contains() of '
             'every later bound (slice arithmetic evaluated for 1..6 bounds and every index incl. '
             '-1, no early exit) before anything is returned; when a bound is appended every '
             'earlier shell is split by contains() of the newest bound on its own points, rows '
             'moving with one mask and staying with its complement; transfer candidates re-enter '
             'only the newest shell, replacing proposals of the same provenance, each at most '
             'once; shell_association picks the last containing bound; rows are stored under the '
             'shell they were drawn for; what a bound returns lies inside it (selection before '
             'cache, frames), proposals come from unit-cube restricted bounds, the phase shift is '
             'closed on [0,1), and user code only ever sees copies of the stored points; for histories '
             'with resumes, every renumbering of the shells is followed by a full checkpoint write, '
             'so points_<i> is never left next to a stale bound_<i>.',
        ref='DESIGN.md sections 4 C01, 10.9-10.13, 10.16, 10.17, 10.18, rules M4 M5 L1 L2 L3 L4 A5 Q3 T8 M3 M6 F6 P4 P6 P8 P14 T9 I1 N4', note=TRUST +
        ' contains() of each bound is numerically what it says (C07 leaf assumption).'),
    'C02': dict(
        technique='lockstep path analysis over per-shell records; dirty=>recompute post-dominance '
                  'on CFGs; def-use agreement of proposal accounting and exploration boundary; '
                  'symbolic normalisation of the estimator formulas to linear forms',
        text='Decides the bookkeeping clauses: per-shell records (bounds, points, log_l, blobs, '
             'six statistic arrays) are created and removed together on every bounded path; every '
             'write to an input of update_shell_info is followed by its recomputation; '
             'update_shell_info is a pure recomputation; proposals are counted before filtering '
             'and that count is what shell_n_sample receives; posterior() and the statistics use '
             'the same exploration boundary; the view arrays of posterior() are sliced and '
             'repeated together; and, as exact linear forms in the log domain, the formulas are '
             'the importance-sampling estimators of the held samples: shell volume = bound volume '
             'x kept fraction, evidence term = sum_j L_j V_b/N, Kish size per shell and overall, '
             'per-sample weights that sum to the evidence term and are normalised by their own '
             'sum.  Floating-point evaluation of the formulas and eta are not decided.',
        ref='DESIGN.md sections 4 C02, 10.9-10.11, 10.14, 10.16, 10.17, 10.18, rules L1 L1d T3 T8 Q3 A2 A6 L5 U1 A8 A9 P4 E I1 N3 G6', note=TRUST),
    'C03': dict(
        technique='lockstep path analysis (same mask / index / source on parallel arrays), '
                  'ordered-map and batch-axis lints on the evaluation path, copy-provenance rule',
        text='Decides the alignment clauses: on every bounded path of add_bound / add_samples / '
             'run / posterior the point, log-likelihood and blob arrays undergo the same '
             'selections, moves, extensions (old rows first) and repeats, from aligned sources '
             '(one evaluate_likelihood call or one index into the transfer arrays); log_l reaches '
             'the store through packaging only (no value-changing call); the pool map preserves '
             'order; no operation can drop the batch axis for a one-row batch; the prior only ever '
             'receives a fresh copy; transfer candidates are consumed once; and the rows, the '
             'transfer set and its consumed marks are rewritten by every checkpoint update and '
             'restored into the attributes they came from; a pool job fills and returns a private '
             'copy of the bound, never the caller\'s object (no proposal is handed out twice).',
        ref='DESIGN.md sections 4 C03, 10.9-10.13, 10.16, 10.17, 10.18, rules L1-L5 L3b S1 F5 F7 A5 P4 P1 P2 P9 P12 M9 I1 F11 F12', note=TRUST +
        ' The user likelihood is assumed pure.'),
    'C05': dict(
        technique='effect analysis over the resolved call graph vs. key tables extracted from '
                  'write / write_shell_update / update / resume; CFG reachability for '
                  'layout-change => full-write',
        text='Decides the persistence-completeness clauses: every attribute the stepping code can '
             'modify and later consult is written by the full writer; every persisted attribute '
             'that a batch, a public setter or run() itself can modify is rewritten by the '
             'incremental update on every path, or is followed by a full write before the next '
             'incremental one (first batch included); bound updates cover proposal caches and '
             'counters, nested; the resume block reads only keys the writer produces, into the '
             'attribute they came from, in index order; the generator state is rewritten after '
             'every batch; one seeded generator object is plumbed to every object that draws and '
             'is never rebound afterwards; no hidden nondeterminism source; the emulator writer '
             'sweeps every attribute of the fitted networks; a value cached on demand is '
             'invalidated by every write to what it was computed from (serial and pool path); no '
             'checkpoint written inside an iteration of run() is followed by the end-of-exploration '
             'decision before the next batch (a run resumed from any file state does what the '
             'uninterrupted run did next).  Bit-identity itself is not decided.',
        ref='DESIGN.md section 4 C05, 10, 10.13, 10.15 and 10.16, 10.17, 10.18, rules P0 P1 P2 P4 P5 P6 P8 P9 P11 P12 P14 P15 K2 F3 F4 T10 P17', note=TRUST +
        ' h5py round-trips values exactly; sklearn training is deterministic given its seed.'),
    'C06': dict(
        technique='typestate analysis on per-function CFGs (atomic-replace protocol), path '
                  'provenance by reaching definitions',
        text='Decides the whole mechanism statically: the caller-visible checkpoint path is only '
             'ever changed as the destination of an atomic rename of a temporary file that was '
             'opened for writing, completely written and closed on every path; no unlink, '
             'truncate or in-place update of the live path anywhere in the package.  That code '
             'shape is necessary and sufficient for "every crash point leaves the old or the new '
             'state", so the crash-point quantifier collapses.  A temporary file is published only '
             'by the function that wrote it (no adoption of left-overs), and an in-place update '
             'is only ever applied to a copy of a file this run wrote completely and rewrites '
             'everything that changed since (no mixture of two states through a stale layout).',
        ref='DESIGN.md section 4 C06, 10.9 and 10.16, 10.17, rules T2 P4 P6',
        note=TRUST + ' POSIX rename atomicity; crash = process kill, no fsync obligation.'),
    'C15': dict(
        technique='CFG path rules (validate-before-mutate, dominating uniqueness guard), '
                  'abstract evaluation of the category predicates of sibling classifiers',
        text='Decides the structural clauses: a rejected declaration cannot have modified the '
             'prior (no protected write reaches a raise, nothing fallible after the first write), '
             'every appended key passed a rejecting membership test, keys and dists grow together '
             'exactly once per success, only ValueError/TypeError are raised explicitly, links '
             'are declared and chain-resolved, the queries write no state (except caches that '
             'add_parameter resets), and dimensionality / unit_to_physical / '
             'physical_to_dictionary agree on free, fixed and link entries with one forward '
             'coordinate counter; a declared key / distribution is never tested for truthiness '
             '(0, 0.0, False are legal fixed values) and is rebound only under a type or is-None '
             'test of itself; a free parameter is ppf(u) / isf(1 - u) of the coordinate it is stored '
             'to, a (low, high) tuple becomes uniform(loc=low, scale=high-low), a fixed value is '
             'constant; a range tuple is rejected unless it has two entries with low < high, and the '
             'array unit_to_physical fills is float64 whatever the dtype of the input.  The shape '
             'of scipy\'s quantile functions is not decided.',
        ref='DESIGN.md section 4 C15, 10, 10.13-10.16, 10.17, 10.18, rules T1 T1b T7 R1 L1p K1 A1 A1c F1p D1 D2 D3 D4 D5 D7',
        note=TRUST),
}

CLAIMS.update({
    'C07': dict(
        technique='membership-fact (selection-before-cache) path rules, meet-only mask rule, '
                  'column-polarity pairing, lockstep of per-ellipsoid records, interval closure',
        text='Decides soundness at the composition level: Union.sample filters by the cube under '
             'the same guard as contains(); NautilusBound.sample keeps only proposals that some '
             'neural bound contains and returns them through the inverse shift while contains() '
             'shifts forward first; composite contains() masks start from the outer bound and '
             'are only narrowed; the mixture pairs cube/ellipsoid with the right columns in '
             'transform, contains and sample; construction points stay recorded with the '
             'ellipsoid built from them through splits; caches are reset when members change; at '
             'the leaf, the ellipsoid sampler draws direction x u^(1/n) through the matrix whose '
             'inverse contains() applies.  Leaf floating-point geometry is assumed.',
        ref='DESIGN.md sections 4 C07, 10.9-10.11, 10.16, 10.17, 10.18, rules M1 M2 M3 A4 M6 L1 L6 T9 V2 V3 F9 N4 P17', note=TRUST),
    'C08': dict(
        technique='sibling-agreement (serial vs pool branch) and def-use dependency rules',
        text='WEAK claim, structural necessary conditions only: the pool branch of '
             'NautilusBound.sample merges exactly the counters the serial branch advances; '
             'n_sample / n_reject describe the rows actually cached; the acceptance mask depends '
             'on multiplicity over all members and the allocation on member volumes, paired in '
             'order; counters are covered by update(); what sample() hands out passed the tests '
             'contains() applies (cube, any-of neural bounds, frames); a cached volume is '
             'invalidated by every counter update; as exact algebra, union / nautilus volumes are '
             'the proposal region times (n_sample - n_reject)/n_sample and the ellipsoid volume is '
             'log|det M| + (n/2) log pi - lgamma(n/2+1) for the matrix M that contains() inverts.  Uniformity and volume calibration as '
             'distributional facts are NOT decided by static analysis.',
        ref='DESIGN.md sections 4 C08, 10.9-10.13, 10.16, 10.17, 10.18, rules A3 T8 Q1 Q2 P4 M1 M9 K2 V2 I2 N3 N4 G8', note=TRUST),
    'C09': dict(
        technique='writer/reader/updater table extraction and comparison; definite-assignment '
                  'analysis of constructors against the observation interface read set',
        text='Decides for the 8 persistable classes: reader keys are a subset of writer keys '
             'with matching kind and guard; each key is restored into the attribute it was '
             'written from; every attribute read by contains/sample/log_v/write/update/reset/'
             'transform/predict is assigned on every path of compute/read/train; optional members '
             'are restored under the predicate the constructor / writer uses; mutable state is '
             'restored from the file, not re-derived; list members come back in index order; the '
             'classes a reader can rebuild cover those the creating code can store; update() '
             'rewrites, on every path, what sample() mutates; the network attribute sweep is '
             'present and skips only what is stored explicitly; an optional member never gets a '
             'value without the file being asked; a constructor-only attribute that read() '
             'recomputes uses the constructor\'s expression; indexed members are read for '
             'exactly the indices 0..N-1 (range bounds evaluated, probed while-loops start at 0, '
             'advance by one and continue while the key exists); a class chosen by comparing a '
             'stored tag with a string is the class of that name.',
        ref='DESIGN.md sections 4 C09, 10.9-10.13, 10.15, 10.16, 10.17, 10.18, rules P1-P5 P7 P7n P8-P13 G2 K2 P17', note=TRUST +
        ' Exact array round-trip through HDF5 and the sklearn attribute sweep are trusted.'),
    'C10': dict(
        technique='who-may-call / who-may-write tables, CFG loop contract, def-use accounting',
        text='Decides: n_like is written only by evaluate_likelihood (once per call, by the '
             'length of a per-point image of its argument or of the likelihood output); the '
             'likelihood is only called there; run() evaluates only inside a loop guarded by the '
             'strict test n_like < n_like_max, at most one batch per iteration and none in a nested '
             'loop, idle iterations are pure and end the loop (their branch conditions entail the '
             'success predicate also for a NaN estimator); sample_shell returns exactly n_batch fresh rows; '
             'the success predicate is one conjunction over explored / per-shell minimum / n_eff '
             'and is the returned value; every evaluated point comes from a unit-cube restricted '
             'bound through row selections and a shift that is closed on [0,1); across resumes the '
             'budget is compared with a counter that every checkpoint update rewrites.',
        ref='DESIGN.md sections 4 C10, 10.9-10.11, 10.14, 10.16, 10.17, 10.18, rules F6 N1 T5 T8 T3 M1 M3 M6 P4 I1 L1d', note=TRUST),
    'C11': dict(
        technique='effect (write/draw) summaries closed over the call graph; control-dependence '
                  'analysis of flag tests; rng provenance; nondeterminism lints with fixtures',
        text='Decides: the 12 read-only accessors write no state, mutate no alias of it and draw '
             'no random numbers (posterior only under equal_weight); statements that depend on '
             'verbose / filepath / vectorized / pool_l have no effect on state or generator '
             'outside print / checkpoint / ordered-map sinks, which are themselves pure; every '
             'rng-taking constructor, reader and reset receives the caller\'s generator; no '
             'unseeded generator, legacy global RNG, clock, hash/set order; fitted estimators '
             'are seeded; pool maps are ordered; the prior only ever receives a fresh copy; on the '
             'prior-transform path no branch on the shape / scalar-ness of the points selects the '
             'arithmetic (scalar and vectorised evaluation see the same coordinates); no parameter '
             'that may be its mutable default object is modified in place, no unlisted global '
             'write, no class-level mutable attribute.',
        ref='DESIGN.md sections 4 C11, 10.9-10.13, 10.16, 10.17, 10.18, rules F1-F5 F7 F8 F9 F10 G1 G3 K2 F12', note=TRUST +
        ' NumPy / SciPy / sklearn are deterministic given their seeds.'),
    'C12': dict(
        technique='control-dependence phase guards, who-may-write tables, extend-prefix lockstep '
                  'rule, primed-before-publish path rule',
        text='Decides: add_bound and every removal/filter of shell records happen only under '
             '`not explored` (also through private helpers), in descending index order over '
             'exactly the empty shells, followed by explored = True; explored is only ever set '
             'True; run() applies its discard argument only at the transition; rows are appended '
             'after the old ones; the exploration boundaries are recorded after the removal; the '
             'discard setter recomputes every shell on every path as a pure function of stored '
             'arrays and flags, with no lazy sampling in log_v; the flag is persisted by the '
             'incremental update and comes back from a checkpoint as the bool its setter accepts.  '
             'Known finding K1 (listed in known_findings.json): the discard argument of run() is '
             'ignored once exploration has ended.',
        ref='DESIGN.md sections 4 C12, 10.9-10.14, 10.16, 10.17 (known finding K1), 10.18, rules T6 F6 L1 L3 T3 T4 A2 A6 P4 P9 P12 I1 G6 T11 U1', note=TRUST),
    'C13': dict(
        technique='lockstep path analysis of the parallel per-ellipsoid records, '
                  'validate-before-mutate and post-dominance (cache reset) on CFGs',
        text='Decides: along every bounded path of split and trim the records bounds / '
             'points_bounds / block change together (same deletion index, same pushes or the same '
             'in-place replacement), log_v_all is rebuilt or maintained in lockstep, each pushed '
             'ellipsoid is computed from the point set pushed at the same position, one flag per '
             'new record with the same size rule as compute(), the refusal test compares the '
             'children (their summed volume) with the ellipsoid being split and the replacement '
             'sits on the branch where the sum does not exceed the parent, the cluster top-up '
             'uses n_points_min as threshold and as size, a refused operation has not touched '
             'ellipsoids or points, every change is followed by reset(), and no function of the '
             'package writes into an array it was handed (so the recorded construction points '
             'stay what they were); a union read back from a checkpoint carries every member of the '
             'record.',
        ref='DESIGN.md sections 4 C13, 10.9-10.13, 10.16, 10.17, 10.18, rules L1 L1d L6 L0 T1 T9 S2 S3 S4 G5 F9 N3 S5 S6 G7', note=TRUST),
    'C14': dict(
        technique='lockstep rule on local view arrays; purity / parameter-guarded draw; '
                  'path-wise symbolic evaluation of the repeat counts',
        text='Decides: the same repeat counts are applied on axis 0 to points, log-likelihoods '
             'and blobs, weights are rebuilt to the resampled length, nothing else reorders one '
             'of them; posterior() writes no state and draws only under equal_weight; on every path '
             'the multiplicity applied to each view array has the stochastic-rounding form '
             'floor(r) + [u < r - floor(r)] (or floor(r + u)) with r = exp(log_w - max) * boost '
             'and one double-precision uniform per row, a Bernoulli-only mask being admitted only '
             'under branch conditions that force boost < 1.  That NumPy floor/compare/repeat do '
             'what their names say is assumed.',
        ref='DESIGN.md sections 4 C14, 10.9-10.11, 10.13, 10.18, rules L5 F1 Q4 Q5 E(normalisation)', note=TRUST),
    'C16': dict(
        technique='abstract interpretation: interval domain with open/closed ends and float-mod '
                  'transfer function; linear-form comparison of forward and inverse shift; '
                  'piecewise linear-form evaluation of the circular gaps',
        text='Decides closure of [0,1) under PhaseShift.transform in both directions (float '
             'rounding of sums and remainders modelled), that only column periodic[i] is stored to '
             'with centers[i], that the output is a fresh copy, that forward and inverse are '
             'opposite shifts, and that the shift is applied forward on entry to contains() and '
             'inverted exactly once on exit from sample(), also for pool workers; and, in exact '
             'rational arithmetic on the expressions of PhaseShift.compute, that the gap vector is '
             'the differences of the sorted coordinates closed by a wrap-around gap equal to '
             'x[0] - x[-1] + 1 both for distinct and for coincident coordinates (float modulo '
             'evaluated piecewise) and that the centre is x[argmax] + max/2 + 1/2 modulo 1 over '
             'that same vector.',
        ref='DESIGN.md section 4 C16, 10.9 and 10.16, 10.17, 10.18, rules M6 M7 M8 P17 G7', note=TRUST +
        ' float a % 1 is in [0,1) for a >= 0 and in [0,1] when a may be negative.'),
})

NOT_APPLICABLE = {
    'C04': 'Statistical correctness over seed ensembles (unbiased log Z within 1/sqrt(n_eff), '
           'volumes summing to one within sampling error) is a statement about expectations of '
           'numerical results; no clause of it is a shape of the code that is not already a '
           'clause of C01/C02/C08, so static analysis has nothing of its own to decide here.',
}

ALL = ['C%02d' % i for i in range(1, 17)]


def main():
    checks = []
    for pid in ALL:
        c = CLAIMS.get(pid)
        if not c:
            continue
        checks.append({
            'property_id': pid,
            'quick_cmd': './nv --property %s --tier quick' % pid,
            'thorough_cmd': './nv --property %s --tier thorough' % pid,
            'evidence_file': 'evidence/%s.json' % pid,
            'replay_cmd_template': './nv --replay {path}',
            'engine': 'nvstat',
            'technique': c['technique'],
            'level_claimed': {'category': 'other', 'text': c['text'], 'design_ref': c['ref']},
            'level_note': c['note'],
        })
    na = []
    for pid in ALL:
        if pid in CLAIMS:
            continue
        reason = NOT_APPLICABLE.get(pid, 'static check for this property is not built yet in '
                                         'this commit (planned in DESIGN.md section 4); not '
                                         'claimed until its rules are armed and silent on the '
                                         'unchanged tree')
        na.append({'property_id': pid, 'reason': reason})
    manifest = {
        'version': 1,
        'setup_cmd': 'sh -c "if [ -x /venv/bin/python ]; then /venv/bin/python -m compileall -q '
                     'nvstat; else python3 -m compileall -q nvstat; fi"',
        'hooks': {
            'guard': 'NAUTILUS_VERIF',
            'enable': 'none: static analysis needs no instrumentation; the variable is unused',
            'baseline_off_cmd': 'cd /repo && /venv/bin/python -m pytest -ra -q -p '
                                'no:cacheprovider --timeout=900 --continue-on-collection-errors',
            'source_commits': [],
            'add_only': True,
        },
        'engines': [{
            'name': 'nvstat',
            'path': 'nvstat/',
            'serves_properties': sorted(CLAIMS),
            'kind_free_text': 'repository-specific static analyser on the Python stdlib ast: '
                              'normalised syntax trees, per-function CFG with dominators / '
                              'post-dominators / reaching definitions, constructor-inferred '
                              'receiver types and call graph, effect summaries, typestate, '
                              'lockstep, persistence-table and interval rules',
        }],
        'checks': checks,
        'not_applicable': na,
        'notes': 'Every verdict is computed from /repo\'s current source on every run; nothing '
                 'imports or executes nautilus.  exit 0 pass / exit 1 VIOLATION / exit 2 '
                 'ANALYSIS-ERROR (anchor vanished or analyser could not decide; never a silent '
                 'pass).  Claims are for the named structural clauses only; see DESIGN.md.',
    }
    with open(os.path.join(HERE, 'MANIFEST.json'), 'w') as fh:
        json.dump(manifest, fh, indent=1)
    print('MANIFEST.json: %d checks, %d not_applicable' % (len(checks), len(na)))


if __name__ == '__main__':
    main()

#!/usr/bin/env python3
"""Regenerate MANIFEST.json from the table below (kept in one place so that the
manifest, the claimed list and the not_applicable list cannot drift apart)."""
import json
import os

HERE = os.path.dirname(os.path.dirname(os.path.abspath(__file__)))

TRUST = ('CPython ast parses what the interpreter runs; no exec/eval/metaclasses in the package '
         '(swept on every run); library contracts listed in DESIGN.md 1.4; leaf floating-point '
         'geometry is assumed, not decided.')

CLAIMS = {
    'C06': dict(
        technique='typestate analysis on per-function CFGs (atomic-replace protocol), path '
                  'provenance by reaching definitions',
        text='Decides the whole mechanism statically: the caller-visible checkpoint path is only '
             'ever changed as the destination of an atomic rename of a temporary file that was '
             'opened for writing, completely written and closed on every path; no unlink, '
             'truncate or in-place update of the live path anywhere in the package.  That code '
             'shape is necessary and sufficient for "every crash point leaves the old or the new '
             'state", so the crash-point quantifier collapses.',
        ref='DESIGN.md section 4 C06, rule T2',
        note=TRUST + ' POSIX rename atomicity; crash = process kill, no fsync obligation.'),
    'C15': dict(
        technique='CFG path rules (validate-before-mutate, dominating uniqueness guard), '
                  'abstract evaluation of the category predicates of sibling classifiers',
        text='Decides the structural clauses: a rejected declaration cannot have modified the '
             'prior (no protected write reaches a raise), every appended key passed a rejecting '
             'membership test, keys and dists grow together exactly once per success, only '
             'ValueError/TypeError are raised explicitly, links are declared and chain-resolved, '
             'and dimensionality / unit_to_physical / physical_to_dictionary agree on free, fixed '
             'and link entries with one forward coordinate counter.  The numerical clauses '
             '(inverse CDF shape) are not decided.',
        ref='DESIGN.md section 4 C15, rules T1 T7 R1 L1p K1 A1',
        note=TRUST),
}

NOT_APPLICABLE = {
    'C04': 'Statistical correctness over seed ensembles (unbiased log Z within 1/sqrt(n_eff), '
           'volumes summing to one within sampling error) is a statement about expectations of '
           'numerical results; no clause of it is a shape of the code that is not already a '
           'clause of C01/C02/C08, so static analysis has nothing of its own to decide here.',
}

ALL = ['C%02d' % i for i in range(1, 17)]


def main():
    checks = []
    for pid in ALL:
        c = CLAIMS.get(pid)
        if not c:
            continue
        checks.append({
            'property_id': pid,
            'quick_cmd': './nv --property %s --tier quick' % pid,
            'thorough_cmd': './nv --property %s --tier thorough' % pid,
            'evidence_file': 'evidence/%s.json' % pid,
            'replay_cmd_template': './nv --replay {path}',
            'engine': 'nvstat',
            'technique': c['technique'],
            'level_claimed': {'category': 'other', 'text': c['text'], 'design_ref': c['ref']},
            'level_note': c['note'],
        })
    na = []
    for pid in ALL:
        if pid in CLAIMS:
            continue
        reason = NOT_APPLICABLE.get(pid, 'static check for this property is not built yet in '
                                         'this commit (planned in DESIGN.md section 4); not '
                                         'claimed until its rules are armed and silent on the '
                                         'unchanged tree')
        na.append({'property_id': pid, 'reason': reason})
    manifest = {
        'version': 1,
        'setup_cmd': 'sh -c "if [ -x /venv/bin/python ]; then /venv/bin/python -m compileall -q '
                     'nvstat; else python3 -m compileall -q nvstat; fi"',
        'hooks': {
            'guard': 'NAUTILUS_VERIF',
            'enable': 'none: static analysis needs no instrumentation; the variable is unused',
            'baseline_off_cmd': 'cd /repo && /venv/bin/python -m pytest -ra -q -p '
                                'no:cacheprovider --timeout=900 --continue-on-collection-errors',
            'source_commits': [],
            'add_only': True,
        },
        'engines': [{
            'name': 'nvstat',
            'path': 'nvstat/',
            'serves_properties': sorted(CLAIMS),
            'kind_free_text': 'repository-specific static analyser on the Python stdlib ast: '
                              'normalised syntax trees, per-function CFG with dominators / '
                              'post-dominators / reaching definitions, constructor-inferred '
                              'receiver types and call graph, effect summaries, typestate, '
                              'lockstep, persistence-table and interval rules',
        }],
        'checks': checks,
        'not_applicable': na,
        'notes': 'Every verdict is computed from /repo\'s current source on every run; nothing '
                 'imports or executes nautilus.  exit 0 pass / exit 1 VIOLATION / exit 2 '
                 'ANALYSIS-ERROR (anchor vanished or analyser could not decide; never a silent '
                 'pass).  Claims are for the named structural clauses only; see DESIGN.md.',
    }
    with open(os.path.join(HERE, 'MANIFEST.json'), 'w') as fh:
        json.dump(manifest, fh, indent=1)
    print('MANIFEST.json: %d checks, %d not_applicable' % (len(checks), len(na)))


if __name__ == '__main__':
    main()

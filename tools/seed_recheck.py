#!/usr/bin/env python3
"""Re-run every check against each kept seeded change (patch applied to /repo under the
lock, undone straight afterwards) and refresh the `checks` section of its meta.json."""
import fcntl, json, glob, os, shutil, subprocess, sys, tempfile
VERIF = os.path.dirname(os.path.dirname(os.path.abspath(__file__)))
PY = '/venv/bin/python'
PROPS = ['C01','C02','C03','C05','C06','C07','C08','C09','C10','C11','C12','C13','C14','C15','C16']
only = set(sys.argv[1:])
for d in sorted(glob.glob(os.path.join(VERIF, 'seeded', 'C*'))):
    tag = os.path.basename(d)
    if only and tag not in only:
        continue
    patch = os.path.join(d, 'patch.diff')
    mp = os.path.join(d, 'meta.json')
    meta = json.load(open(mp))
    lock = open('/tmp/nv_repo.lock', 'w'); fcntl.flock(lock, fcntl.LOCK_EX)
    out = tempfile.mkdtemp(prefix='sv_out_')
    res = {}
    try:
        st = subprocess.run(['git','-C','/repo','status','--porcelain'],capture_output=True,text=True).stdout
        if st.strip():
            print('repo dirty, abort'); sys.exit(4)
        r = subprocess.run(['git','-C','/repo','apply',patch],capture_output=True,text=True)
        if r.returncode:
            print(tag, 'patch does not apply', r.stderr); continue
        env = dict(os.environ, NVSTAT_OUT=out)
        for p in PROPS:
            r = subprocess.run([PY, os.path.join(VERIF,'nvstat','check.py'),'-p',p],capture_output=True,text=True,env=env)
            f = [l for l in r.stdout.splitlines() if l.startswith(('FINDING','ANALYSIS-ERROR'))]
            res[p] = {'exit': r.returncode, 'findings': f[:4]}
    finally:
        subprocess.run(['git','-C','/repo','checkout','--','.'])
        shutil.rmtree(out, ignore_errors=True)
        fcntl.flock(lock, fcntl.LOCK_UN)
    caught = [p for p,v in res.items() if v['exit']==1]
    err = [p for p,v in res.items() if v['exit']==2]
    meta['checks'] = {'caught_by': caught, 'analysis_error': err,
                      'findings': {p: res[p]['findings'] for p in caught+err}}
    json.dump(meta, open(mp,'w'), indent=1)
    print(tag, 'caught_by', caught, 'exit2', err)

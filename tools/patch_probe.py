#!/usr/bin/env python3
"""Quick look: run all 15 checks against a scratch copy of /repo/nautilus with a patch applied."""
import os, shutil, subprocess, sys, tempfile
patch = sys.argv[1]
d = tempfile.mkdtemp(prefix='nvprobe_')
try:
    import fcntl
    lk = open('/tmp/nv_repo.lock', 'w'); fcntl.flock(lk, fcntl.LOCK_EX)
    shutil.copytree('/repo/nautilus', os.path.join(d, 'nautilus'), ignore=shutil.ignore_patterns('__pycache__'))
    fcntl.flock(lk, fcntl.LOCK_UN)
    r = subprocess.run(['patch', '-p1', '-s', '-d', d, '-i', patch], capture_output=True, text=True)
    if r.returncode:
        print('patch failed', r.stdout, r.stderr); sys.exit(3)
    env = dict(os.environ, NVSTAT_OUT=os.path.join(d, 'out'))
    here = os.path.dirname(os.path.abspath(__file__))
    for p in ['C01','C02','C03','C05','C06','C07','C08','C09','C10','C11','C12','C13','C14','C15','C16']:
        r = subprocess.run([sys.executable, os.path.join(here, '..', 'nvstat', 'check.py'), '-p', p, '--repo', d],
                           capture_output=True, text=True, env=env)
        if r.returncode:
            print(p, 'exit', r.returncode)
            for l in r.stdout.splitlines():
                if l.startswith(('FINDING', 'ANALYSIS-ERROR', 'NOTE')):
                    print('   ', l[:260])
    print('done')
finally:
    shutil.rmtree(d)
